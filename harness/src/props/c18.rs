//! C18 — targets agree on everything that is target-independent.
//!
//! Every enumerated program is compiled for {HlslForDirectX, HlslForVulkan, HlslForVulkan + buffer address, Msl} in the same
//! mode with the same layout-validation setting, and the four results are related to one another:
//!  (1) a front-end rejection (preprocess / parse / type-check / layout validation / pipeline selection) is a rejection of all
//!      four configurations with the byte-identical diagnostic;
//!  (2) the three HLSL configurations succeed or fail together;
//!  (3) normalise_dx(parse(DX text)) == normalise_vk(parse(VK text)) for both Vulkan configurations, where the two normalisers
//!      delete exactly the binding / attribute annotations and undo the buffer-address lowering (listed in the evidence);
//!  (4) all configurations report the same stages (kind, thread-group size), the same graphics pipeline state and the same
//!      multiset of (binding name, descriptor kind, count), static samplers removed, buffer-address kinds mapped to the
//!      byte-buffer kinds they stand for.
//! Back-end rejections of the Metal exporter are outside the property and are counted.
//!
//! Spaces (each enumerated completely within its bound): hand-written + repository programs; all sequences of ≤ 3 resource
//! declarations × pipeline shapes × usage; the contents of the declarations that have a body (every member list of ≤ 2
//! (thorough ≤ 3) members, the empty list first, as a cbuffer / ConstantBuffer<T> / StructuredBuffer<T>, alone and next to
//! every neighbour declaration, used and unused); the stage interface of graphics pipelines (every list of ≤ 2 attributes
//! over element type × declarator shape × per-vertex / per-primitive rate, carried by a struct or by entry-point parameters on
//! either side, for vertex+pixel and mesh+pixel pipelines); every word of the exporters' reserved-name lists as the name of a
//! declaration; every single-token mutant of the fixed programs (rejected programs of every front-end error class).
//! The quick tier thins the largest spaces by a stated rule (digit-sum classes, every 25th mutant), see `caps_hit`.

use super::c08::{MutantSpace, core_programs};
use crate::ast_norm::{self, Norm};
use crate::engine::*;
use crate::json::{Json, obj};
use crate::util::*;
use rssl::ast;
use rssl::{ApiLocation, CompiledPipeline, DescriptorType, PipelineDescription};

// ---------------------------------------------------------------------------------------------
// results of one configuration

enum Out {
    Ok(Vec<CompiledPipeline>),
    /// rejected before the per-target back end: the rendered diagnostic
    Front(String),
    /// rejected by an exporter (HLSL or MSL generator / formatter)
    Back(String),
    Panic(PanicInfo),
}

/// Exporter diagnostics have no source location and start with one of these texts (hlsl/src/lib.rs ExportError::print,
/// msl/src/lib.rs ExportError::print, msl/src/generator.rs GenerateError::print)
const BACKEND_PREFIXES: [&str; 5] = [
    "error: hlsl generate:",
    "error: hlsl format:",
    "error: metal generate:",
    "error: metal format:",
    "error: interpolator required by pixel stage has not been provided:",
];

fn classify(r: Result<Result<Vec<CompiledPipeline>, String>, PanicInfo>) -> Out {
    match r {
        Err(p) => Out::Panic(p),
        Ok(Ok(ps)) => Out::Ok(ps),
        Ok(Err(msg)) => {
            if BACKEND_PREFIXES.iter().any(|p| msg.starts_with(p)) {
                Out::Back(msg)
            } else {
                Out::Front(msg)
            }
        }
    }
}

/// `panic|<repo-relative file>|<message class>` wherever the repository is checked out
fn panic_sig(p: &PanicInfo) -> String {
    let s = p.signature();
    match (s.find("|/"), s.find("/repo/")) {
        (Some(a), Some(b)) if a < b => format!("{}|{}", &s[..a], &s[b + 6..]),
        _ => s,
    }
}

impl Out {
    /// short stable class of an outcome, for signatures
    fn class(&self) -> String {
        match self {
            Out::Ok(_) => "ok".into(),
            Out::Front(_) => "front-end-error".into(),
            Out::Back(m) => {
                let first = m.lines().next().unwrap_or("");
                let body = first.trim_start_matches("error: ");
                // "hlsl generate: ComplexTypeBind" -> keep the variant name without its payload
                let cut = body.find('(').unwrap_or(body.len());
                let body = &body[..cut];
                match body.find(": ") {
                    Some(p) if body.starts_with("interpolator") => body[..p].to_string(),
                    _ => body.to_string(),
                }
            }
            Out::Panic(p) => panic_sig(p),
        }
    }
    fn render(&self) -> String {
        match self {
            Out::Ok(ps) => format!("Ok({} pipelines)", ps.len()),
            Out::Front(m) => format!("Err(front end: {})", one_line(m, 160)),
            Out::Back(m) => format!("Err(back end: {})", one_line(m, 160)),
            Out::Panic(p) => format!("PANIC {} {}", p.file, one_line(&p.message, 120)),
        }
    }
}

/// Which front-end phase rejects the program (only used to name error classes; single-file programs)
fn front_end_phase(src: &str, validate: bool) -> &'static str {
    use rssl::text::{FileName, SourceManager};
    let r = guard(|| {
        let mut sm = SourceManager::new();
        let toks = match rssl::preprocess::preprocess_fragment(src, FileName("main.rssl".into()), &mut sm) {
            Ok(t) => t,
            // the lexer runs inside the preprocessor
            Err(rssl::preprocess::PreprocessError::LexerError(_)) => return "lexer",
            Err(_) => return "preprocessor",
        };
        let toks = rssl::preprocess::prepare_tokens(&toks);
        let tree = match rssl::parser::parse(&toks) {
            Ok(t) => t,
            Err(_) => return "parser",
        };
        let ir = match rssl::typer::type_check(&tree) {
            Ok(ir) => ir,
            Err(_) => return "type-checker",
        };
        if validate && rssl::ir::layout_checker::check_layout(&ir).is_err() {
            return "layout-validation";
        }
        "pipeline-selection"
    });
    r.unwrap_or("front-end-panic")
}

// ---------------------------------------------------------------------------------------------
// the case

#[derive(Clone)]
pub struct Case {
    pub name: String,
    pub src: String,
    pub mode: Mode,
    pub validate: bool,
}

fn mode_text(m: &Mode) -> String {
    match m {
        Mode::All => "all".to_string(),
        Mode::NoPipeline => "nopipe".to_string(),
        Mode::Named(n) => format!("named {}", n),
    }
}

impl Case {
    fn replay_text(&self) -> String {
        format!("kind: program\nname: {}\nmode: {}\nvalidate: {}\n=====\n{}", self.name, mode_text(&self.mode), self.validate, self.src)
    }
    fn from_replay(body: &str) -> Option<Case> {
        let (head, src) = body.split_once("=====\n")?;
        let mut c = Case { name: "replay".into(), src: src.to_string(), mode: Mode::All, validate: false };
        for l in head.lines() {
            if let Some(v) = l.strip_prefix("name: ") {
                c.name = v.to_string();
            } else if let Some(v) = l.strip_prefix("mode: ") {
                c.mode = match v.trim() {
                    "all" => Mode::All,
                    "nopipe" => Mode::NoPipeline,
                    o => Mode::Named(o.trim_start_matches("named ").to_string()),
                };
            } else if let Some(v) = l.strip_prefix("validate: ") {
                c.validate = v.trim() == "true";
            }
        }
        Some(c)
    }
}

fn space_tag(name: &str) -> &str {
    let head = name.split('|').next().unwrap_or("");
    if matches!(head, "res1" | "res2-classes" | "res2-full" | "res3-classes" | "groupnum" | "body" | "iface" | "mutant" | "reserved-word") { head } else { "fixed" }
}

fn pair(a: Cfg, b: Cfg) -> String {
    fn short(c: Cfg) -> &'static str {
        match c {
            Cfg::Dx => "Dx",
            Cfg::Vk => "Vk",
            Cfg::VkBa => "VkBa",
            Cfg::Msl => "Msl",
        }
    }
    format!("{}~{}", short(a), short(b))
}

/// The oracle of C18 for one program.
pub fn check_case(c: &Case, acc: &mut Acc) {
    if c.src.contains("RSSL_TARGET_") {
        acc.count("excluded_mentions_RSSL_TARGET");
        return;
    }
    acc.evals += 1;
    let files = [("main.rssl", c.src.as_str())];
    let t_compile = thread_cpu_s();
    let outs: Vec<Out> = ALL_CFGS
        .iter()
        .map(|cfg| {
            let job = Job { files: &files, entry: "main.rssl", defines: &[], cfg: *cfg, mode: c.mode.clone(), validate_layout: c.validate };
            classify(guard(|| job.run()))
        })
        .collect();
    acc.add("cpu_us phase: the four compilations", ((thread_cpu_s() - t_compile) * 1e6) as u64);
    let four = || ALL_CFGS.iter().zip(outs.iter()).map(|(cfg, o)| format!("{}: {}", cfg.name(), o.render())).collect::<Vec<_>>().join(" | ");

    // ---- (1) front-end verdict and diagnostic
    let any_front = outs.iter().any(|o| matches!(o, Out::Front(_)));
    if any_front {
        // reference = the text given by most configurations (ties: the first in configuration order)
        let texts: Vec<Option<&str>> = outs.iter().map(|o| if let Out::Front(m) = o { Some(m.as_str()) } else { None }).collect();
        let mut best: Option<&str> = None;
        let mut best_n = 0;
        for t in texts.iter().flatten() {
            let n = texts.iter().filter(|u| **u == Some(*t)).count();
            if n > best_n {
                best_n = n;
                best = Some(*t);
            }
        }
        let deviants: Vec<String> = ALL_CFGS
            .iter()
            .zip(texts.iter())
            .filter(|(_, t)| **t != best)
            .map(|(cfg, t)| format!("{}:{}", cfg.name(), if t.is_some() { "other-diagnostic" } else { "not-rejected-by-front-end" }))
            .collect();
        let phase = front_end_phase(&c.src, c.validate);
        if !deviants.is_empty() {
            acc.violation(Violation {
                signature: format!("frontend-verdict-differs|{}|{}", phase, deviants.join(",")),
                detail: format!("{} [{} validate={}]: a front-end ({}) rejection is not the same for all targets: {}", c.name, mode_text(&c.mode), c.validate, phase, four()),
                replay: c.replay_text(),
            });
            return;
        }
        acc.count(&format!("rejected_by {}", phase));
        acc.count(&format!("space {}: rejected by the front end", space_tag(&c.name)));
        let msg = best.unwrap_or("");
        let first = msg.lines().next().unwrap_or("");
        let class = first.rsplit(": ").next().unwrap_or(first);
        acc.outcome(&("rejected", phase, class.to_string()));
        return;
    }

    // ---- (2) DirectX and Vulkan flavours succeed or fail together
    let hl_ok: Vec<bool> = outs[..3].iter().map(|o| matches!(o, Out::Ok(_))).collect();
    if hl_ok.iter().any(|b| *b != hl_ok[0]) {
        let classes: Vec<String> = ALL_CFGS[..3].iter().zip(outs.iter()).map(|(cfg, o)| format!("{}:{}", cfg.name(), o.class())).collect();
        acc.violation(Violation {
            signature: format!("dx-vk-verdict-differs|{}", classes.join(",")),
            detail: format!("{} [{} validate={}]: the HLSL flavours do not succeed or fail together: {}", c.name, mode_text(&c.mode), c.validate, four()),
            replay: c.replay_text(),
        });
        return;
    }
    match &outs[3] {
        Out::Ok(_) => acc.count("msl accepted"),
        Out::Back(_) => acc.count(&format!("msl back-end rejection (outside the property): {}", outs[3].class())),
        Out::Panic(_) => acc.count(&format!("msl exporter panic (reported under C08): {}", outs[3].class())),
        Out::Front(_) => unreachable!(),
    }
    if !hl_ok[0] {
        // all three HLSL configurations fail in the exporter (or panic): nothing to relate
        acc.count(&format!("hlsl rejected by all three flavours: {}", outs[0].class()));
        let same = outs[..3].iter().all(|o| o.class() == outs[0].class());
        if !same {
            acc.count("hlsl flavours fail with different exporter diagnostics (not required equal)");
        }
        acc.outcome(&("hlsl-rejected", outs[0].class()));
        return;
    }
    let Out::Ok(dx) = &outs[0] else { unreachable!() };
    acc.count("accepted by the three HLSL flavours");
    acc.count(&format!("space {}: accepted by the three HLSL flavours{}", space_tag(&c.name), if matches!(outs[3], Out::Ok(_)) { " and Metal" } else { "" }));

    // ---- (3) the HLSL sources differ only in binding / attribute annotations and buffer-address lowering
    let mentions_ba = c.src.contains("BufferAddress");
    let t_compare = thread_cpu_s();
    let dx_trees: Vec<Result<ast::Module, String>> = dx.iter().map(|pd| parse_flavour(&String::from_utf8_lossy(&pd.data))).collect();
    for k in [1usize, 2usize] {
        let Out::Ok(vk) = &outs[k] else { unreachable!() };
        let cfg = ALL_CFGS[k];
        if vk.len() != dx.len() {
            continue; // reported by (4) as pipeline-count
        }
        for (pi, (pd, pv)) in dx.iter().zip(vk.iter()).enumerate() {
            let _ = pd;
            let vk_text = String::from_utf8_lossy(&pv.data);
            match compare_flavours(&dx_trees[pi], &vk_text, &pv.metadata, cfg == Cfg::VkBa, mentions_ba) {
                FlavourResult::Same { rewrites } => {
                    acc.add("flavour comparisons that hold", 1);
                    if rewrites > 0 {
                        acc.add("buffer-address lowerings undone by the normaliser", rewrites as u64);
                    }
                }
                FlavourResult::Unparsable(which, e) => {
                    acc.count(&format!("emitted {} text not re-readable by the rssl parser (C04/C09): compared on exporter trees", which));
                    let _ = e;
                    // fall back to the syntax trees handed to the formatter (hook H1)
                    match compare_on_exporter_trees(c, cfg, pi, &pv.metadata, mentions_ba) {
                        Some(FlavourResult::Differ { class, detail }) => acc.violation(Violation {
                            signature: format!("hlsl-flavours-differ|{}", class),
                            detail: format!("{} [{} validate={}] pipeline #{} DX vs {} (exporter trees): {}", c.name, mode_text(&c.mode), c.validate, pi, cfg.name(), detail),
                            replay: c.replay_text(),
                        }),
                        Some(_) => acc.add("flavour comparisons that hold", 1),
                        None => acc.count("flavour comparison impossible (no exporter tree)"),
                    }
                }
                FlavourResult::Differ { class, detail } => acc.violation(Violation {
                    signature: format!("hlsl-flavours-differ|{}", class),
                    detail: format!("{} [{} validate={}] pipeline #{} DX vs {}: {}", c.name, mode_text(&c.mode), c.validate, pi, cfg.name(), detail),
                    replay: c.replay_text(),
                }),
            }
        }
    }

    acc.add("cpu_us phase: flavour comparison", ((thread_cpu_s() - t_compare) * 1e6) as u64);

    // ---- (4) stages, pipeline state, bindings: every configuration against DirectX
    for k in 1..4usize {
        let Out::Ok(other) = &outs[k] else { continue };
        let cfg = ALL_CFGS[k];
        let pr = pair(Cfg::Dx, cfg);
        if other.len() != dx.len() {
            acc.violation(Violation {
                signature: format!("stages-differ|pipeline-count|{}", pr),
                detail: format!("{} [{}]: {} pipelines for DirectX, {} for {}", c.name, mode_text(&c.mode), dx.len(), other.len(), cfg.name()),
                replay: c.replay_text(),
            });
            continue;
        }
        for (pi, (a, b)) in dx.iter().zip(other.iter()).enumerate() {
            if let Some((field, detail)) = stages_differ(a, b) {
                acc.violation(Violation {
                    signature: format!("stages-differ|{}|{}", field, pr),
                    detail: format!("{} [{}] pipeline #{}: {} vs {}: {}", c.name, mode_text(&c.mode), pi, Cfg::Dx.name(), cfg.name(), detail),
                    replay: c.replay_text(),
                });
            }
            if a.graphics_pipeline_state != b.graphics_pipeline_state {
                acc.violation(Violation {
                    signature: format!("state-differs|{}", pr),
                    detail: format!("{} [{}] pipeline #{}: graphics pipeline state {:?} for DirectX but {:?} for {}", c.name, mode_text(&c.mode), pi, a.graphics_pipeline_state, b.graphics_pipeline_state, cfg.name()),
                    replay: c.replay_text(),
                });
            }
            if let Some((field, detail)) = bindings_differ(&a.metadata, &b.metadata) {
                acc.violation(Violation {
                    signature: format!("bindings-differ|{}|{}", field, pr),
                    detail: format!("{} [{}] pipeline #{}: {} vs {}: {}", c.name, mode_text(&c.mode), pi, Cfg::Dx.name(), cfg.name(), detail),
                    replay: c.replay_text(),
                });
            } else {
                acc.add("binding-set comparisons that hold", 1);
                if groups_of(&a.metadata) != groups_of(&b.metadata) {
                    acc.count(&format!("info: same bindings but different group membership {} (not part of the property)", pr));
                }
            }
        }
    }
    // distinct non-trivial outcome: what DirectX emitted and reported
    let mut h: Vec<u64> = Vec::new();
    for p in dx {
        h.push(hash_of(&p.data));
        h.push(hash_of(&format!("{:?}", binding_set(&p.metadata))));
        h.push(p.stages.len() as u64);
    }
    acc.outcome(&("accepted", matches!(outs[3], Out::Ok(_)), h));
}

// ---------------------------------------------------------------------------------------------
// (4) reflection

fn stages_differ(a: &CompiledPipeline, b: &CompiledPipeline) -> Option<(&'static str, String)> {
    if a.stages.len() != b.stages.len() {
        return Some(("count", format!("{} stages vs {}", a.stages.len(), b.stages.len())));
    }
    for (x, y) in a.stages.iter().zip(b.stages.iter()) {
        if x.stage != y.stage {
            return Some(("kind", format!("{:?} vs {:?}", x.stage, y.stage)));
        }
        if x.thread_group_size != y.thread_group_size {
            return Some(("thread-group-size", format!("{:?} stage: {:?} vs {:?}", x.stage, x.thread_group_size, y.thread_group_size)));
        }
    }
    None
}

/// BufferAddress is "raw buffer address or ByteBuffer if raw addresses are disabled" (ir/src/export.rs): both spellings of a
/// kind are the same kind for this comparison
fn kind_name(k: DescriptorType) -> String {
    match k {
        DescriptorType::BufferAddress => "ByteBuffer".to_string(),
        DescriptorType::RwBufferAddress => "RwByteBuffer".to_string(),
        o => format!("{:?}", o),
    }
}

/// sorted (name, kind, count) of all bindings that are not static samplers
fn binding_set(m: &PipelineDescription) -> Vec<(String, String, Option<u32>)> {
    let mut v = Vec::new();
    for g in &m.bind_groups {
        for b in &g.bindings {
            if b.static_sampler.is_some() {
                continue;
            }
            v.push((b.name.clone(), kind_name(b.descriptor_type), b.descriptor_count));
        }
    }
    v.sort();
    v
}

fn groups_of(m: &PipelineDescription) -> Vec<(String, usize)> {
    let mut v = Vec::new();
    for (gi, g) in m.bind_groups.iter().enumerate() {
        for b in &g.bindings {
            if b.static_sampler.is_none() {
                v.push((b.name.clone(), gi));
            }
        }
    }
    v.sort();
    v
}

fn bindings_differ(a: &PipelineDescription, b: &PipelineDescription) -> Option<(&'static str, String)> {
    let sa = binding_set(a);
    let sb = binding_set(b);
    if sa == sb {
        return None;
    }
    let na: Vec<&String> = sa.iter().map(|x| &x.0).collect();
    let nb: Vec<&String> = sb.iter().map(|x| &x.0).collect();
    if na != nb {
        // a binding that one side does not report at all is a different class from a binding that is reported under a
        // generated name (`kernel` / `kernel_0`): compare the names without their generated `_<digits>` suffix
        fn stem(n: &str) -> &str {
            match n.rfind('_') {
                Some(p) if p > 0 && p + 1 < n.len() && n[p + 1..].bytes().all(|b| b.is_ascii_digit()) => &n[..p],
                _ => n,
            }
        }
        let mut ta: Vec<&str> = na.iter().map(|n| stem(n)).collect();
        let mut tb: Vec<&str> = nb.iter().map(|n| stem(n)).collect();
        ta.sort();
        tb.sort();
        if ta != tb {
            let only_a: Vec<&&str> = ta.iter().filter(|n| ta.iter().filter(|m| m == n).count() > tb.iter().filter(|m| m == n).count()).collect();
            let only_b: Vec<&&str> = tb.iter().filter(|n| tb.iter().filter(|m| m == n).count() > ta.iter().filter(|m| m == n).count()).collect();
            let class = match (only_a.is_empty(), only_b.is_empty()) {
                (false, true) => "missing-on-second",
                (true, false) => "missing-on-first",
                _ => "other-binding",
            };
            return Some((class, format!("binding names {:?} vs {:?} (reported by one side only: {:?} / {:?})", na, nb, only_a, only_b)));
        }
        return Some(("name", format!("binding names {:?} vs {:?}", na, nb)));
    }
    for (x, y) in sa.iter().zip(sb.iter()) {
        if x.1 != y.1 {
            return Some(("kind", format!("binding {}: {} vs {}", x.0, x.1, y.1)));
        }
        if x.2 != y.2 {
            return Some(("count", format!("binding {}: {:?} vs {:?}", x.0, x.2, y.2)));
        }
    }
    Some(("name", "binding sets differ".into()))
}

// ---------------------------------------------------------------------------------------------
// (3) the normalisers

pub enum FlavourResult {
    Same { rewrites: usize },
    Unparsable(&'static str, String),
    Differ { class: String, detail: String },
}

fn attr_is(a: &ast::Attribute, ns: &str, leaves: &[&str]) -> bool {
    a.two_square_brackets && a.name.len() == 2 && a.name[0].node == ns && leaves.iter().any(|l| a.name[1].node == *l)
}

fn is_plain_type(t: &ast::Type, name: &str) -> bool {
    t.layout.1.is_empty() && t.layout.0.try_trivial().map(|n| n.node == name).unwrap_or(false)
}

/// DirectX side: delete the `register(...)` annotations of global variables and constant buffers. Nothing else.
fn normalise_dx(defs: &mut Vec<ast::RootDefinition>) {
    for d in defs.iter_mut() {
        match d {
            ast::RootDefinition::GlobalVariable(g) => {
                for def in &mut g.defs {
                    def.location_annotations.retain(|l| !matches!(l, ast::LocationAnnotation::Register(_)));
                }
            }
            ast::RootDefinition::ConstantBuffer(cb) => {
                cb.location_annotations.retain(|l| !matches!(l, ast::LocationAnnotation::Register(_)));
            }
            ast::RootDefinition::Namespace(_, inner) => normalise_dx(inner),
            _ => {}
        }
    }
}

struct VkNorm<'a> {
    meta: &'a PipelineDescription,
    buffer_address: bool,
    /// group -> member names of the deleted InlineDescriptorN struct
    inline_structs: Vec<(u32, Vec<String>)>,
    /// groups whose `ConstantBuffer<InlineDescriptorN> g_inlineDescriptorN` was deleted
    inline_globals: Vec<u32>,
    /// aliases rewritten back to resource declarations: (group, name)
    aliases: Vec<(u32, String)>,
    rewrites: usize,
}

fn inline_struct_group(name: &str) -> Option<u32> {
    name.strip_prefix("InlineDescriptor").and_then(|d| if !d.is_empty() && d.bytes().all(|b| b.is_ascii_digit()) { d.parse().ok() } else { None })
}

impl<'a> VkNorm<'a> {
    /// `struct InlineDescriptorN { [[vk::offset(k)]] uint64_t name; ... };`
    fn match_inline_struct(&self, s: &ast::StructDefinition) -> Option<(u32, Vec<String>)> {
        let group = inline_struct_group(&s.name.node)?;
        if !s.base_types.is_empty() || !s.template_params.0.is_empty() || s.members.is_empty() {
            return None;
        }
        let mut names = Vec::new();
        for m in &s.members {
            let ast::StructEntry::Variable(v) = m else { return None };
            if !is_plain_type(&v.ty, "uint64_t") || !v.ty.modifiers.modifiers.is_empty() || v.defs.len() != 1 {
                return None;
            }
            if v.attributes.len() != 1 || !attr_is(&v.attributes[0], "vk", &["offset"]) || v.attributes[0].arguments.len() != 1 {
                return None;
            }
            let d = &v.defs[0];
            if d.init.is_some() || !d.location_annotations.is_empty() {
                return None;
            }
            let ast::Declarator::Identifier(id, attrs) = &d.declarator else { return None };
            if !attrs.is_empty() {
                return None;
            }
            names.push(id.try_trivial()?.node.clone());
        }
        Some((group, names))
    }

    /// `[[vk::binding(i, N)]] ConstantBuffer<InlineDescriptorN> g_inlineDescriptorN;`
    fn match_inline_global(&self, g: &ast::GlobalVariable) -> Option<u32> {
        if g.defs.len() != 1 || !g.global_type.modifiers.modifiers.is_empty() {
            return None;
        }
        if !g.global_type.layout.0.try_trivial().map(|n| n.node == "ConstantBuffer").unwrap_or(false) || g.global_type.layout.1.len() != 1 {
            return None;
        }
        let group = match &g.global_type.layout.1[0] {
            ast::ExpressionOrType::Type(t) if t.abstract_declarator == ast::Declarator::Empty && t.base.layout.1.is_empty() && t.base.modifiers.modifiers.is_empty() => {
                inline_struct_group(&t.base.layout.0.try_trivial()?.node)?
            }
            _ => return None,
        };
        let d = &g.defs[0];
        if d.init.is_some() || !d.location_annotations.is_empty() {
            return None;
        }
        let ast::Declarator::Identifier(id, attrs) = &d.declarator else { return None };
        if !attrs.is_empty() || id.try_trivial()?.node != format!("g_inlineDescriptor{}", group) {
            return None;
        }
        if !(g.attributes.is_empty() || (g.attributes.len() == 1 && attr_is(&g.attributes[0], "vk", &["binding"]))) {
            return None;
        }
        if !self.inline_structs.iter().any(|(n, _)| *n == group) {
            return None;
        }
        Some(group)
    }

    /// `static const uint64_t NAME = g_inlineDescriptorN.NAME;` -> (N, NAME)
    fn match_alias(&self, g: &ast::GlobalVariable) -> Option<(u32, String)> {
        if g.defs.len() != 1 || !g.attributes.is_empty() || !is_plain_type(&g.global_type, "uint64_t") {
            return None;
        }
        let mods: Vec<ast::TypeModifier> = g.global_type.modifiers.modifiers.iter().map(|m| m.node).collect();
        if mods != [ast::TypeModifier::Static, ast::TypeModifier::Const] {
            return None;
        }
        let d = &g.defs[0];
        if !d.location_annotations.is_empty() {
            return None;
        }
        let ast::Declarator::Identifier(id, attrs) = &d.declarator else { return None };
        if !attrs.is_empty() {
            return None;
        }
        let name = id.try_trivial()?.node.clone();
        let Some(ast::Initializer::Expression(e)) = &d.init else { return None };
        let ast::Expression::Member(obj, member) = &e.node else { return None };
        let ast::Expression::Identifier(objname) = &obj.node else { return None };
        let group: u32 = objname.try_trivial()?.node.strip_prefix("g_inlineDescriptor")?.parse().ok()?;
        if member.try_trivial()?.node != name {
            return None;
        }
        // the alias must read a member of a deleted descriptor struct of a deleted descriptor buffer
        if !self.inline_globals.contains(&group) || !self.inline_structs.iter().any(|(n, ms)| *n == group && ms.contains(&name)) {
            return None;
        }
        Some((group, name))
    }

    /// the byte-buffer type that the address binding `name` stands for, from the Vulkan reflection data (`inline`: an
    /// inline constant of that group, otherwise a descriptor binding of any group). A generated name `x_3` is also looked
    /// up as `x` (the reflection data may carry either).
    fn kind_of(&self, group: Option<u32>, name: &str) -> Option<&'static str> {
        let stem = match name.rfind('_') {
            Some(p) if p + 1 < name.len() && name[p + 1..].bytes().all(|b| b.is_ascii_digit()) => &name[..p],
            _ => name,
        };
        for (gi, g) in self.meta.bind_groups.iter().enumerate() {
            if group.map(|n| n as usize != gi).unwrap_or(false) {
                continue;
            }
            for b in &g.bindings {
                let inline = matches!(b.api_binding, ApiLocation::InlineConstant(_));
                if (b.name == name || b.name == stem) && inline == group.is_some() {
                    match b.descriptor_type {
                        DescriptorType::BufferAddress => return Some("ByteAddressBuffer"),
                        DescriptorType::RwBufferAddress => return Some("RWByteAddressBuffer"),
                        _ => {}
                    }
                }
            }
        }
        None
    }

    fn roots(&mut self, defs: &mut Vec<ast::RootDefinition>, at_root: bool) {
        let mut out: Vec<ast::RootDefinition> = Vec::with_capacity(defs.len());
        for mut d in defs.drain(..) {
            match &mut d {
                ast::RootDefinition::Struct(s) => {
                    if self.buffer_address && at_root {
                        if let Some(found) = self.match_inline_struct(s) {
                            self.inline_structs.push(found);
                            continue;
                        }
                    }
                    for m in &mut s.members {
                        match m {
                            ast::StructEntry::Variable(v) => v.attributes.retain(|a| !attr_is(a, "vk", &["ext_decorate"])),
                            ast::StructEntry::Method(f) => self.function(f),
                        }
                    }
                }
                ast::RootDefinition::GlobalVariable(g) => {
                    if self.buffer_address && at_root {
                        if let Some(group) = self.match_inline_global(g) {
                            self.inline_globals.push(group);
                            continue;
                        }
                    }
                    if self.buffer_address {
                        if let Some((group, name)) = self.match_alias(g) {
                            // back to the resource declaration it stands for; the type comes from the reflection data
                            let ty = self.kind_of(Some(group), &name).unwrap_or("uint64_t");
                            g.global_type.modifiers.modifiers.clear();
                            g.global_type.layout.0.identifiers[0].node = ty.to_string();
                            g.defs[0].init = None;
                            self.aliases.push((group, name));
                            out.push(d);
                            continue;
                        }
                    }
                    if self.buffer_address && is_plain_type(&g.global_type, "uint64_t") && g.attributes.iter().any(|a| attr_is(a, "vk", &["binding"])) {
                        // a descriptor binding of type uint64_t: an array of addresses keeps its descriptors. Its byte-buffer
                        // type comes from the reflection data; a bound uint64_t that the reflection data does not call an
                        // address is not explained by the lowering and is left under a name that matches nothing
                        let name = g.defs.first().and_then(|d| base_identifier(&d.declarator));
                        let ty = name.and_then(|n| self.kind_of(None, &n)).unwrap_or("uint64_t(bound, not an address)");
                        g.global_type.layout.0.identifiers[0].node = ty.to_string();
                        self.rewrites += 1;
                    }
                    g.attributes.retain(|a| !attr_is(a, "vk", &["binding"]));
                    for def in &mut g.defs {
                        if let Some(i) = &mut def.init {
                            self.init(i);
                        }
                    }
                }
                ast::RootDefinition::ConstantBuffer(cb) => cb.attributes.retain(|a| !attr_is(a, "vk", &["binding"])),
                ast::RootDefinition::Function(f) => self.function(f),
                ast::RootDefinition::Namespace(_, inner) => self.roots(inner, false),
                ast::RootDefinition::Enum(_) | ast::RootDefinition::Typedef(_) | ast::RootDefinition::Pipeline(_) => {}
            }
            out.push(d);
        }
        *defs = out;
    }

    fn function(&mut self, f: &mut ast::FunctionDefinition) {
        f.attributes.retain(|a| !attr_is(a, "vk", &["ext_extension", "ext_capability"]));
        for p in &mut f.params {
            strip_declarator_decoration(&mut p.declarator);
            if let Some(e) = &mut p.default_expr {
                self.expr(e);
            }
        }
        if let Some(body) = &mut f.body {
            for s in body {
                self.stmt(s);
            }
        }
    }

    fn init(&mut self, i: &mut ast::Initializer) {
        match i {
            ast::Initializer::Expression(e) => self.expr(&mut e.node),
            ast::Initializer::Aggregate(v) => {
                for x in v {
                    self.init(x);
                }
            }
            ast::Initializer::StaticSampler(_) => {}
        }
    }

    fn vardef(&mut self, v: &mut ast::VarDef) {
        for d in &mut v.defs {
            if let Some(i) = &mut d.init {
                self.init(i);
            }
        }
    }

    fn stmt(&mut self, s: &mut ast::Statement) {
        use ast::StatementKind::*;
        match &mut s.kind {
            Empty | Break | Continue | Discard => {}
            Expression(e) => self.expr(e),
            Var(v) => self.vardef(v),
            AmbiguousDeclarationOrExpression(v, e) => {
                self.vardef(v);
                self.expr(e);
            }
            Block(b) => {
                for x in b {
                    self.stmt(x);
                }
            }
            If(c, t) => {
                self.expr(&mut c.node);
                self.stmt(t);
            }
            IfElse(c, t, e) => {
                self.expr(&mut c.node);
                self.stmt(t);
                self.stmt(e);
            }
            For(i, c, n, b) => {
                match i {
                    ast::InitStatement::Empty => {}
                    ast::InitStatement::Expression(e) => self.expr(&mut e.node),
                    ast::InitStatement::Declaration(v) => self.vardef(v),
                }
                if let Some(c) = c {
                    self.expr(&mut c.node);
                }
                if let Some(n) = n {
                    self.expr(&mut n.node);
                }
                self.stmt(b);
            }
            While(c, b) => {
                self.expr(&mut c.node);
                self.stmt(b);
            }
            DoWhile(b, c) => {
                self.stmt(b);
                self.expr(&mut c.node);
            }
            Switch(c, b) => {
                self.expr(&mut c.node);
                self.stmt(b);
            }
            Return(e) => {
                if let Some(e) = e {
                    self.expr(&mut e.node);
                }
            }
            CaseLabel(v, n) => {
                self.expr(&mut v.node);
                self.stmt(n);
            }
            DefaultLabel(n) => self.stmt(n),
        }
    }

    /// post-order: `vk::RawBufferLoad<T>(addr + uint64_t(off), rest…)` -> `addr.Load<T>(off, rest…)`, likewise Store
    fn expr(&mut self, e: &mut ast::Expression) {
        use ast::Expression::*;
        match e {
            Literal(_) | Identifier(_) | SizeOf(_) => {}
            UnaryOperation(_, a) | Cast(_, a) => self.expr(&mut a.node),
            BinaryOperation(_, a, b) | ArraySubscript(a, b) => {
                self.expr(&mut a.node);
                self.expr(&mut b.node);
            }
            TernaryConditional(a, b, c) => {
                self.expr(&mut a.node);
                self.expr(&mut b.node);
                self.expr(&mut c.node);
            }
            Member(a, _) => self.expr(&mut a.node),
            Call(f, targs, args) => {
                self.expr(&mut f.node);
                for t in targs.iter_mut() {
                    if let ast::ExpressionOrType::Expression(x) = t {
                        self.expr(&mut x.node);
                    }
                }
                for a in args.iter_mut() {
                    self.expr(&mut a.node);
                }
            }
            BracedInit(_, inits) => {
                for i in inits {
                    self.init(i);
                }
            }
            AmbiguousParseBranch(bs) => {
                for b in bs {
                    self.expr(&mut b.expr.node);
                }
            }
        }
        if !self.buffer_address {
            return;
        }
        let replace = if let Call(f, targs, args) = e {
            let method = match &f.node {
                Identifier(id) if id.base == ast::ScopedIdentifierBase::Relative && id.identifiers.len() == 2 && id.identifiers[0].node == "vk" => match id.identifiers[1].node.as_str() {
                    "RawBufferLoad" => Some("Load"),
                    "RawBufferStore" => Some("Store"),
                    _ => None,
                },
                _ => None,
            };
            match (method, args.first().map(|a| &a.node)) {
                (Some(method), Some(BinaryOperation(ast::BinOp::Add, addr, off))) => match &off.node {
                    Call(conv, ctargs, cargs) if ctargs.is_empty() && cargs.len() == 1 && matches!(&conv.node, Identifier(id) if id.try_trivial().map(|n| n.node == "uint64_t").unwrap_or(false)) => {
                        let object = rssl::text::Located::none(Member(addr.clone(), ast::ScopedIdentifier::trivial(method)));
                        let mut new_args = vec![cargs[0].clone()];
                        new_args.extend(args[1..].iter().cloned());
                        Some(Call(Box::new(object), targs.clone(), new_args))
                    }
                    _ => None,
                },
                _ => None,
            }
        } else {
            None
        };
        if let Some(r) = replace {
            *e = r;
            self.rewrites += 1;
        }
    }
}

fn base_identifier(d: &ast::Declarator) -> Option<String> {
    match d {
        ast::Declarator::Empty => None,
        ast::Declarator::Identifier(id, _) => id.try_trivial().map(|n| n.node.clone()),
        ast::Declarator::Pointer(p) => base_identifier(&p.inner),
        ast::Declarator::Reference(r) => base_identifier(&r.inner),
        ast::Declarator::Array(a) => base_identifier(&a.inner),
    }
}

/// delete `[[vk::ext_decorate(..)]]` from the identifier at the base of a parameter declarator
fn strip_declarator_decoration(d: &mut ast::Declarator) {
    match d {
        ast::Declarator::Empty => {}
        ast::Declarator::Identifier(_, attrs) => attrs.retain(|a| !attr_is(a, "vk", &["ext_decorate"])),
        ast::Declarator::Pointer(p) => strip_declarator_decoration(&mut p.inner),
        ast::Declarator::Reference(r) => strip_declarator_decoration(&mut r.inner),
        ast::Declarator::Array(a) => strip_declarator_decoration(&mut a.inner),
    }
}

pub const NORMALISER_DESCRIPTION: [&str; 10] = [
    "normalise_dx deletes: `register(...)` annotations on global variables and on cbuffers (nothing else)",
    "normalise_vk deletes: `[[vk::binding(...)]]` on global variables and cbuffers",
    "normalise_vk deletes: `[[vk::ext_decorate(...)]]` on struct members and on parameter names, `[[vk::ext_extension(...)]]` and `[[vk::ext_capability(...)]]` on functions (per-primitive attribute support)",
    "normalise_vk, buffer-address configuration only, deletes: a root-level `struct InlineDescriptorN` whose members are all `[[vk::offset(k)]] uint64_t name;`, and the root-level `[[vk::binding(..)]] ConstantBuffer<InlineDescriptorN> g_inlineDescriptorN;` that follows it",
    "normalise_vk, buffer-address configuration only, rewrites `static const uint64_t NAME = g_inlineDescriptorN.NAME;` (NAME a member of the deleted struct) to the declaration `ByteAddressBuffer NAME;` / `RWByteAddressBuffer NAME;` according to the descriptor kind (BufferAddress / RwBufferAddress) that the Vulkan reflection data reports for the inline constant NAME of group N",
    "normalise_vk, buffer-address configuration only, rewrites `vk::RawBufferLoad<T>(a + uint64_t(o), rest)` to `a.Load<T>(o, rest)` and `vk::RawBufferStore<T>(a + uint64_t(o), rest)` to `a.Store<T>(o, rest)` in function bodies, default arguments and global initialisers",
    "normalise_vk, buffer-address configuration only, rewrites the type of a global `[[vk::binding(..)]] uint64_t NAME[n];` (an array of addresses keeps descriptor bindings) to `ByteAddressBuffer` / `RWByteAddressBuffer` according to the descriptor kind the Vulkan reflection data reports for NAME; if the reflection data does not call NAME an address the type is left unmatched (a violation)",
    "comparison, buffer-address configuration and programs that mention BufferAddress only: in parameters, locals, casts, struct members and return types the type name `uint64_t` on the Vulkan side may stand where DirectX has `ByteAddressBuffer` or `RWByteAddressBuffer` (which of them are addresses is not visible in either text); every other token of the two trees must be equal, in order",
    "both trees are obtained by re-reading the emitted text with rssl's own preprocessor and parser; parse ambiguities (cast vs call, template argument vs comparison) are resolved identically on both sides against the built-in type names plus the struct/enum names declared in either text; source locations are ignored",
    "when an emitted text cannot be re-read (a C04/C09 matter) the same normalisers are applied to the syntax trees handed to the formatter (hook H1)",
];

fn declared_type_names(defs: &[ast::RootDefinition], names: &mut Vec<String>) {
    for d in defs {
        match d {
            ast::RootDefinition::Struct(s) => names.push(s.name.node.clone()),
            ast::RootDefinition::Enum(e) => names.push(e.name.node.clone()),
            ast::RootDefinition::Typedef(_) => {}
            ast::RootDefinition::Namespace(_, inner) => declared_type_names(inner, names),
            _ => {}
        }
    }
}

/// tokens of a location-free Debug rendering: words, quoted strings, single punctuation characters
fn tokens(s: &str) -> Vec<&str> {
    let b = s.as_bytes();
    let mut out = Vec::with_capacity(s.len() / 4);
    let mut i = 0;
    while i < b.len() {
        let c = b[i];
        if c == b' ' || c == b'\n' {
            i += 1;
        } else if c == b'"' {
            let mut j = i + 1;
            while j < b.len() && b[j] != b'"' {
                if b[j] == b'\\' {
                    j += 1;
                }
                j += 1;
            }
            let j = (j + 1).min(b.len());
            out.push(&s[i..j]);
            i = j;
        } else if c.is_ascii_alphanumeric() || c == b'_' || c >= 0x80 {
            let mut j = i;
            while j < b.len() && (b[j].is_ascii_alphanumeric() || b[j] == b'_' || b[j] >= 0x80) {
                j += 1;
            }
            out.push(&s[i..j]);
            i = j;
        } else {
            out.push(&s[i..i + 1]);
            i += 1;
        }
    }
    out
}

/// class of the node at token position `pos`: the root definition kind and the innermost constructor around the position
fn node_class(toks: &[&str], pos: usize) -> String {
    let is_ctor = |i: usize| -> bool {
        let t = toks[i];
        t.as_bytes()[0].is_ascii_uppercase() && i + 1 < toks.len() && (toks[i + 1] == "(" || toks[i + 1] == "{") && !matches!(t, "Some" | "None" | "Module")
    };
    let pos = pos.min(toks.len().saturating_sub(1));
    // innermost: walk back with a bracket balance
    let mut depth = 0i32;
    let mut inner = String::from("?");
    let mut root = String::from("?");
    let mut i = pos as i64;
    let mut found_inner = false;
    while i >= 0 {
        let t = toks[i as usize];
        match t {
            ")" | "}" | "]" if (i as usize) < pos => depth += 1,
            "(" | "{" | "[" => {
                if depth > 0 {
                    depth -= 1;
                } else if i > 0 && is_ctor(i as usize - 1) {
                    let name = toks[i as usize - 1];
                    if !found_inner {
                        inner = name.to_string();
                        found_inner = true;
                    }
                    if matches!(name, "Struct" | "Enum" | "Typedef" | "ConstantBuffer" | "GlobalVariable" | "Function" | "Namespace" | "Pipeline") {
                        root = name.to_string();
                    }
                }
            }
            _ => {}
        }
        i -= 1;
    }
    format!("{}.{}", root, inner)
}

fn compare_trees(mut dx: ast::Module, mut vk: ast::Module, meta: &PipelineDescription, buffer_address: bool, mentions_ba: bool) -> FlavourResult {
    let mut names = Vec::new();
    declared_type_names(&dx.root_definitions, &mut names);
    declared_type_names(&vk.root_definitions, &mut names);
    let is_ty = move |id: &ast::ScopedIdentifier| -> bool {
        let last = &id.identifiers.last().unwrap().node;
        ast_norm::is_builtin_type_name(last) || names.iter().any(|n| n == last)
    };
    let mut n = Norm::new(&is_ty);
    n.module(&mut dx);
    n.module(&mut vk);
    normalise_dx(&mut dx.root_definitions);
    let mut vn = VkNorm { meta, buffer_address, inline_structs: vec![], inline_globals: vec![], aliases: vec![], rewrites: 0 };
    vn.roots(&mut vk.root_definitions, true);
    // every deleted descriptor member must have come back as an alias (nothing but the lowering was deleted)
    for (g, members) in &vn.inline_structs {
        if !vn.inline_globals.contains(g) {
            return FlavourResult::Differ { class: "InlineDescriptor.without-buffer".into(), detail: format!("struct InlineDescriptor{} has no ConstantBuffer<InlineDescriptor{}> g_inlineDescriptor{}", g, g, g) };
        }
        for m in members {
            if !vn.aliases.iter().any(|(ag, an)| ag == g && an == m) {
                return FlavourResult::Differ { class: "InlineDescriptor.member-without-alias".into(), detail: format!("InlineDescriptor{}.{} is not read by a `static const uint64_t {} = g_inlineDescriptor{}.{}`", g, m, m, g, m) };
            }
        }
    }
    let a = ast_norm::dbg(&dx);
    let b = ast_norm::dbg(&vk);
    if a == b {
        return FlavourResult::Same { rewrites: vn.rewrites + vn.aliases.len() };
    }
    let ta = tokens(&a);
    let tb = tokens(&b);
    let mut first = None;
    let lowering_allowed = buffer_address && mentions_ba;
    for i in 0..ta.len().max(tb.len()) {
        match (ta.get(i), tb.get(i)) {
            (Some(x), Some(y)) if x == y => {}
            (Some(x), Some(y)) if lowering_allowed && *y == "uint64_t" && (*x == "ByteAddressBuffer" || *x == "RWByteAddressBuffer") => {}
            _ => {
                first = Some(i);
                break;
            }
        }
    }
    match first {
        None => FlavourResult::Same { rewrites: vn.rewrites + vn.aliases.len() },
        Some(i) => {
            let class = node_class(&ta, i.min(ta.len().saturating_sub(1)));
            let ctx = |t: &[&str]| -> String {
                let lo = i.saturating_sub(14).min(t.len());
                let hi = (i + 10).min(t.len());
                t[lo..hi].join(" ")
            };
            FlavourResult::Differ { class, detail: format!("after normalisation the trees differ at token {}: DirectX …{}… vs Vulkan …{}…", i, ctx(&ta), ctx(&tb)) }
        }
    }
}

/// re-read an emitted text with rssl's own preprocessor and parser
fn parse_flavour(text: &str) -> Result<ast::Module, String> {
    match guard(|| parse_src(text)) {
        Ok(Ok(m)) => Ok(m),
        Ok(Err(e)) => Err(e),
        Err(p) => Err(panic_sig(&p)),
    }
}

/// `dx`: the re-read DirectX text (read once per pipeline, compared with both Vulkan configurations)
pub fn compare_flavours(dx: &Result<ast::Module, String>, vk_text: &str, vk_meta: &PipelineDescription, buffer_address: bool, mentions_ba: bool) -> FlavourResult {
    let dx = match dx {
        Ok(m) => m.clone(),
        Err(e) => return FlavourResult::Unparsable("DirectX", e.clone()),
    };
    let vk = match parse_flavour(vk_text) {
        Ok(m) => m,
        Err(e) => return FlavourResult::Unparsable("Vulkan", e),
    };
    compare_trees(dx, vk, vk_meta, buffer_address, mentions_ba)
}

/// Fallback when an emitted text is not re-readable: recompile both flavours and compare the trees handed to the formatter.
/// `pi` selects the pipeline (the hook keeps the tree of the last export, so the pipeline is compiled by name / alone).
fn compare_on_exporter_trees(c: &Case, cfg: Cfg, pi: usize, meta: &PipelineDescription, mentions_ba: bool) -> Option<FlavourResult> {
    let files = [("main.rssl", c.src.as_str())];
    let tree_of = |cfg: Cfg| -> Option<ast::Module> {
        // compile all pipelines up to and including #pi one at a time is not possible without names: compile in the case's
        // mode and keep the tree only when the last export is the wanted pipeline
        let job = Job { files: &files, entry: "main.rssl", defines: &[], cfg, mode: c.mode.clone(), validate_layout: c.validate };
        let r = guard(|| job.run()).ok()?.ok()?;
        if pi + 1 != r.len() {
            return None;
        }
        rssl::hlsl::verif::take_last_ast()
    };
    let dx = tree_of(Cfg::Dx)?;
    let vk = tree_of(cfg)?;
    Some(compare_trees(dx, vk, meta, cfg == Cfg::VkBa, mentions_ba))
}

// ---------------------------------------------------------------------------------------------
// space 1: hand-written and repository programs

fn special_programs() -> Vec<(String, String)> {
    let mut v: Vec<(String, String)> = Vec::new();
    // smallest forms of what the larger spaces found (kept first so that they become the replay of their class)
    // the predefined-macro environment apart from RSSL_TARGET_* must be the same on every target (added after a seeded
    // change that defined __HLSL_VERSION for the HLSL targets only was missed): each candidate name is tested for
    // definedness and used as a value, in one program each
    for name in ["__HLSL_VERSION", "__cplusplus", "__METAL_VERSION__", "__RSSL__", "RSSL", "__spirv__", "__SHADER_TARGET_MAJOR", "__STDC__", "__LINE__", "__FILE__", "HLSL", "MSL", "VULKAN", "__hlsl_dx_compiler"] {
        v.push((
            format!("predefined-macro-ifdef-{}", name),
            format!("#ifdef {n}\nstatic const int k = 1;\n#else\nstatic const int k = 2;\n#endif\n[numthreads(1, 1, 1)] void CS() {{ int x = k; }}\nPipeline P {{ ComputeShader = CS; }}\n", n = name),
        ));
        v.push((
            format!("predefined-macro-value-{}", name),
            format!("#if {n} >= 2021\nstatic const int k = 1;\n#elif {n} > 0\nstatic const int k = 2;\n#else\nstatic const int k = 3;\n#endif\nstatic const int m = {n};\n[numthreads(1, 1, 1)] void CS() {{ int x = k + m; }}\nPipeline P {{ ComputeShader = CS; }}\n", n = name),
        ));
    }
    let mut add = |n: &str, s: &str| v.push((n.to_string(), s.to_string()));
    add("minimal-static-buffer-address", "static BufferAddress s_addr;\n[numthreads(1, 1, 1)] void CS() { }\nPipeline P { ComputeShader = CS; }\n");
    add("minimal-resource-named-like-its-struct", "struct Light { float4 colour; };\nStructuredBuffer<Light> Light;\n[numthreads(1, 1, 1)] void CS() { }\nPipeline P { ComputeShader = CS; }\n");
    add(
        "namespaced-resources",
        r#"
namespace A { Texture2D t; cbuffer C { float4 a_c; } const BufferAddress addr; }
namespace B { Texture2D t : register(space1); RWByteAddressBuffer o; namespace A { StructuredBuffer<float4> t; } }
[numthreads(4, 2, 1)] void CS(uint3 id : SV_DispatchThreadID) { A::t; B::t; B::A::t; B::o.Store<float4>(0, A::a_c); B::o.Store<uint>(16, A::addr.Load<uint>(0)); }
Pipeline P { ComputeShader = CS; }
"#,
    );
    add(
        "buffer-address-everywhere",
        r#"
struct Node { uint next; float4 value; };
const BufferAddress g_nodes;
const RWBufferAddress g_out : register(space1);
const BufferAddress g_table[3];
ByteAddressBuffer g_real;
RWByteAddressBuffer g_real_rw;
static uint s_count = 0;
Node fetch(BufferAddress b, uint i) { return b.Load<Node>(i * 32); }
void put(RWBufferAddress b, uint o, Node n) { b.Store<Node>(o, n); b.Store(o + 32, n.next); }
uint chase(BufferAddress b) { uint i = 0; for (uint k = 0; k < 4; ++k) { i = fetch(b, i).next; s_count++; } return i; }
[numthreads(16, 1, 1)]
void CS(uint3 id : SV_DispatchThreadID) {
    BufferAddress local = g_nodes;
    RWBufferAddress wlocal = g_out;
    Node n = fetch(local, chase(g_table[id.x % 3]));
    put(wlocal, id.x * 64, n);
    uint r = g_real.Load(0) + g_real.Load<uint>(4) + g_out.Load<uint>(8);
    g_real_rw.Store(0, r);
    g_real_rw.Store<Node>(16, n);
    if (g_nodes.Load<uint>(id.x) > g_table[1].Load<uint>(0)) { g_out.Store<uint>(id.x > 2 ? 4 : 8, r + g_nodes.Load<uint>(g_nodes.Load<uint>(0))); }
}
Pipeline P { ComputeShader = CS; }
Pipeline Q { ComputeShader = CS; DefaultBindGroup = 2; }
"#,
    );
    add(
        "static-globals-of-object-type",
        r#"
const BufferAddress g_addr;
Texture2D g_tex;
static BufferAddress s_addr;
static Texture2D s_tex;
RWByteAddressBuffer g_o;
[numthreads(1, 1, 1)] void CS() { s_addr = g_addr; s_tex = g_tex; g_o.Store<uint>(0, s_addr.Load<uint>(0)); s_tex; }
Pipeline P { ComputeShader = CS; }
"#,
    );
    add(
        "resource-named-like-its-struct",
        r#"
struct Light { float4 colour; };
StructuredBuffer<Light> Light;
namespace Scene { Texture2D albedo; }
SamplerState Scene;
RWByteAddressBuffer g_o;
[numthreads(4, 1, 1)] void CS(uint3 id : SV_DispatchThreadID) { Light[0]; Scene::albedo; Scene; g_o.Store<uint>(0, id.x); }
Pipeline P { ComputeShader = CS; }
"#,
    );
    add(
        "uint64-next-to-buffer-address",
        r#"
const BufferAddress g_a;
RWByteAddressBuffer g_o;
uint64_t widen(uint v) { return (uint64_t)v + uint64_t(1); }
[numthreads(1, 1, 1)] void CS() { uint64_t x = widen(g_a.Load<uint>(0)); g_o.Store<uint>(0, (uint)x); }
Pipeline P { ComputeShader = CS; }
"#,
    );
    add(
        "pipelines-and-state-wellformed",
        r#"
const Texture2D g_t;
const RWTexture2D<float4> g_o : register(space1);
cbuffer C { float4 g_c; }
[numthreads(8, 8, 1)] void CS(uint3 id : SV_DispatchThreadID) { g_o[id.xy] = g_t.Load(int3(id.xy, 0)) + g_c; }
void VS(uint vid : SV_VertexID, out float4 pos : SV_Position) { pos = float4(0, 0, 0, 1); }
float4 PS(float4 pos : SV_Position) : SV_Target0 { return g_c; }
Pipeline P { ComputeShader = CS; DefaultBindGroup = 1; }
Pipeline Q { VertexShader = VS; PixelShader = PS; RenderTargetFormat0 = "R8G8B8A8_UNORM"; DepthTargetFormat = "D32_FLOAT"; CullMode = "Back"; BlendState0 = { BlendEnabled = true; SrcBlend = "One"; WriteMask = 15; } }
"#,
    );
    add(
        "mesh-pixel-per-primitive",
        r#"
const Texture2D g_input;
const RWTexture2D<float4> g_output : register(space1);
cbuffer Consts : register(space1) { float4 g_tint; }
struct VertexAttributes { float4 position : SV_Position; float2 texcoord : TEXCOORD; };
struct PrimitiveAttributes { uint material : MATERIAL; float3 tint : TINT; };
[numthreads(32, 1, 1)]
[outputtopology("triangle")]
void MS(uint3 dtid : SV_DispatchThreadID, out vertices VertexAttributes o_vertices[64], out primitives PrimitiveAttributes o_primitives[32], out indices uint3 o_triangles[32]) {
    g_input;
    SetMeshOutputCounts(64, 32);
    VertexAttributes vertex; vertex.position = float4(0, 0, 0, 1); vertex.texcoord = float2(0, 0);
    o_vertices[dtid.x] = vertex;
    PrimitiveAttributes prim; prim.material = dtid.x % 8; prim.tint = g_tint.xyz;
    o_primitives[dtid.x] = prim;
    o_triangles[dtid.x] = uint3(0, 1, 2);
}
float4 PS(float2 i_texcoord : TEXCOORD, uint i_material : MATERIAL, float3 i_tint : TINT) : SV_Target0 { g_output; return float4(i_texcoord.xy, i_material, i_tint.x); }
Pipeline G { MeshShader = MS; PixelShader = PS; RenderTargetFormat0 = "R16G16B16A16_FLOAT"; }
"#,
    );
    // graphics state blocks
    let states = [
        "",
        "RenderTargetFormat0 = \"R8G8B8A8_UNORM\";",
        "RenderTargetFormat0 = \"R8G8B8A8_UNORM\"; RenderTargetFormat2 = \"R16G16B16A16_FLOAT\"; DepthTargetFormat = \"D32_FLOAT\";",
        "DepthTargetFormat = \"D24_UNORM_S8_UINT\"; CullMode = \"None\"; WindingOrder = \"Clockwise\";",
        "RenderTargetFormat0 = \"R8G8B8A8_UNORM\"; CullMode = \"Front\"; BlendState0 = { BlendEnabled = true; SrcBlend = \"SrcAlpha\"; DstBlend = \"OneMinusSrcAlpha\"; BlendOp = \"Add\"; WriteMask = 7; }",
        "RenderTargetFormat0 = \"R8G8B8A8_UNORM\"; BlendState = { BlendEnabled = true; SrcBlendAlpha = \"One\"; DstBlendAlpha = \"Zero\"; BlendOpAlpha = \"Max\"; } BlendState1 = { WriteMask = 0xFu; } DefaultBindGroup = 1;",
        "CullMode = \"Back\"; WindingOrder = \"CounterClockwise\"; RenderTargetFormat7 = \"R32_UINT\";",
    ];
    for (i, st) in states.iter().enumerate() {
        v.push((
            format!("graphics-state-{}", i),
            format!(
                "const Texture2D g_t;\ncbuffer C {{ float4 g_c; }}\nvoid VS(uint vid : SV_VertexID, out float4 pos : SV_Position) {{ pos = float4(0, 0, 0, 1); }}\nfloat4 PS(float4 pos : SV_Position) : SV_Target0 {{ g_t; return g_c; }}\nPipeline Q {{ VertexShader = VS; PixelShader = PS; {} }}\n",
                st
            ),
        ));
    }
    // front-end error classes that single-token mutation of well-formed programs reaches rarely
    for (n, s) in [
        ("lexer-error-at-sign", "float f() { return 1.0 @ 2.0; }\n"),
        ("lexer-error-unterminated-string", "static const int x = \"abc;\n"),
        ("lexer-error-unterminated-comment", "float f() { return 1.0; } /* open\n"),
        ("lexer-error-bad-suffix", "static const float x = 1.0p;\n"),
        ("preprocessor-error-unterminated-if", "#if 1\nfloat f() { return 1.0; }\n"),
        ("preprocessor-error-missing-include", "#include \"nowhere.h\"\nfloat f() { return 1.0; }\n"),
        ("preprocessor-error-bad-define", "#define F(a, a) a\nfloat f() { return F(1.0, 2.0); }\n"),
        ("preprocessor-error-else-without-if", "#else\nfloat f() { return 1.0; }\n#endif\n"),
        ("parser-error", "float f() { return (1.0 + ; }\n"),
        ("type-error", "float f() { return g(1.0); }\n"),
        ("layout-error", "struct S { half h; double d; float3 v; };\nStructuredBuffer<S> g_s;\n[numthreads(1, 1, 1)] void CS() { g_s[0]; }\nPipeline P { ComputeShader = CS; }\n"),
        ("pipeline-error-no-entry", "Pipeline P { DefaultBindGroup = 1; }\n"),
        ("pipeline-error-unknown-entry", "Pipeline P { ComputeShader = nothing; }\n"),
        ("pipeline-error-bad-combination", "[numthreads(1,1,1)] void CS() {}\nfloat4 PS() : SV_Target0 { return float4(0,0,0,0); }\nPipeline P { ComputeShader = CS; PixelShader = PS; }\n"),
        ("no-pipeline-at-all", "float f() { return 1.0; }\n"),
        ("double-arithmetic", "RWByteAddressBuffer g_o;\n[numthreads(1, 1, 1)] void CS() { double d = 1.0; g_o.Store<double>(0, d * 2.0); }\nPipeline P { ComputeShader = CS; }\n"),
    ] {
        v.push((n.to_string(), s.to_string()));
    }
    v
}

/// repository inputs that test RSSL_TARGET_* are outside the property; the same files with the macros replaced by the
/// constants of one view are ordinary target-independent programs
fn resolved_views(name: &str, src: &str) -> Vec<(String, String)> {
    if !src.contains("RSSL_TARGET_") {
        return vec![];
    }
    vec![
        (format!("{}|macros-as-hlsl", name), src.replace("RSSL_TARGET_HLSL", "1").replace("RSSL_TARGET_MSL", "0")),
        (format!("{}|macros-as-msl", name), src.replace("RSSL_TARGET_HLSL", "0").replace("RSSL_TARGET_MSL", "1")),
    ]
}

fn fixed_programs() -> Vec<(String, String)> {
    let mut v = special_programs();
    let core = core_programs();
    let mut extra = Vec::new();
    for (n, s) in &core {
        extra.extend(resolved_views(n, s));
    }
    v.extend(core);
    v.extend(extra);
    v
}

// ---------------------------------------------------------------------------------------------
// space 2: resource sequences × pipelines (G-RES, G-PIPE)

#[derive(Copy, Clone, PartialEq, Eq)]
enum KindClass {
    Object,
    CBuffer,
    StaticSampler,
    Plain,
}

#[derive(Copy, Clone)]
struct ResKind {
    ty: &'static str,
    class: KindClass,
}

const fn ob(ty: &'static str) -> ResKind {
    ResKind { ty, class: KindClass::Object }
}

/// every bindable object kind, the two other ways to declare a binding, and non-resource globals (a constant and static
/// variables of object type)
const KINDS: [ResKind; 25] = [
    ob("Texture2D"),
    ob("RWTexture2D<float4>"),
    ob("ByteAddressBuffer"),
    ob("RWStructuredBuffer<Data>"),
    ob("BufferAddress"),
    ob("RWBufferAddress"),
    ob("ConstantBuffer<Data>"),
    ob("SamplerState"),
    ResKind { ty: "cbuffer", class: KindClass::CBuffer },
    ResKind { ty: "StaticSampler", class: KindClass::StaticSampler },
    ResKind { ty: "static const float", class: KindClass::Plain },
    ResKind { ty: "static BufferAddress", class: KindClass::Plain },
    ResKind { ty: "static Texture2D", class: KindClass::Plain },
    // the kinds above are the allocator classes; the rest complete the object alphabet
    ob("Buffer<float4>"),
    ob("RWBuffer<float4>"),
    ob("RWByteAddressBuffer"),
    ob("StructuredBuffer<Data>"),
    ob("Texture2DArray"),
    ob("RWTexture2DArray<float4>"),
    ob("TextureCube"),
    ob("TextureCubeArray"),
    ob("Texture3D"),
    ob("RWTexture3D<float4>"),
    ob("SamplerComparisonState"),
    ob("RaytracingAccelerationStructure"),
];
const N_CLASS_KINDS: usize = 13;

#[derive(Copy, Clone, PartialEq, Eq, Debug)]
struct Res {
    kind: usize,
    /// 0 none, 1 `[2]`, 2 `[[rssl::bindless]]` + `[4]`, 3 `[[rssl::bindless]]` + `[]`
    array: u8,
    /// 0 none, 1 `register(space1)`, 2 `[[rssl::bind_group(2)]]`, 3 `[[vk::binding(5, 1)]]`
    group: u8,
}

/// the declaration alphabet: `kinds` first kinds × `arrays` array forms × `groups` group annotations (only combinations that
/// exist: arrays for objects only, one form of the non-resource global)
fn alphabet(kinds: usize, arrays: u8, groups: u8) -> Vec<Res> {
    let mut v = Vec::new();
    for k in 0..kinds {
        let na = if KINDS[k].class == KindClass::Object { arrays } else { 1 };
        let ng = if KINDS[k].class == KindClass::Plain { 1 } else { groups };
        for a in 0..na {
            for g in 0..ng {
                v.push(Res { kind: k, array: a, group: g });
            }
        }
    }
    v
}

fn decl_text(r: &Res, name: &str) -> String {
    let k = &KINDS[r.kind];
    let mut prefix = String::new();
    if r.array >= 2 {
        prefix.push_str("[[rssl::bindless]] ");
    }
    match r.group {
        2 => prefix.push_str("[[rssl::bind_group(2)]] "),
        3 => prefix.push_str("[[vk::binding(5, 1)]] "),
        _ => {}
    }
    let suffix = if r.group == 1 { " : register(space1)" } else { "" };
    let arr = match r.array {
        1 => "[2]",
        2 => "[4]",
        3 => "[]",
        _ => "",
    };
    match k.class {
        KindClass::Object => format!("{}{} {}{}{};\n", prefix, k.ty, name, arr, suffix),
        KindClass::CBuffer => format!("{}cbuffer {}{} {{ float4 {}_m; uint {}_n; }}\n", prefix, name, suffix, name, name),
        KindClass::StaticSampler => format!("{}const SamplerState {}{} = StaticSampler {{ Filter = MIN_MAG_MIP_LINEAR; AddressU = Clamp; }};\n", prefix, name, suffix),
        KindClass::Plain if k.ty == "static const float" => format!("static const float {} = 1.5;\n", name),
        KindClass::Plain => format!("{} {};\n", k.ty, name),
    }
}

/// a statement that uses the resource (buffer addresses: through their Load/Store methods, so that the lowering is emitted)
fn use_text(r: &Res, name: &str, via_param: bool) -> String {
    let k = &KINDS[r.kind];
    let elem = if r.array > 0 { format!("{}[1]", name) } else { name.to_string() };
    match (k.class, k.ty) {
        (KindClass::CBuffer, _) => format!("s_acc += {}_n;", name),
        (KindClass::Plain, "static const float") => format!("s_acc += (uint){};", name),
        (KindClass::Plain, "static BufferAddress") => format!("s_acc += {}.Load<uint>(4);", name),
        (KindClass::Plain, _) => format!("{};", name),
        (_, "BufferAddress") if via_param => format!("s_acc += load_from({}, 4);", elem),
        (_, "BufferAddress") => format!("s_acc += {}.Load<uint>(4);", elem),
        (_, "RWBufferAddress") => format!("{}.Store<uint>(8, s_acc);", elem),
        (_, "ConstantBuffer<Data>") => format!("s_acc += {}.b;", elem),
        (_, "ByteAddressBuffer") => format!("s_acc += {}.Load(0);", elem),
        _ => format!("{};", elem),
    }
}

pub const N_SHAPES: u64 = 5;
pub const N_USAGES: u64 = 3;

/// shape: 0 compute, 1 vertex+pixel, 2 mesh+pixel (per-primitive attributes), 3 task+mesh+pixel, 4 compute and graphics
/// pipelines in one file; usage: 0 every resource used directly by an entry point, 1 through helper functions, 2 only the
/// last resource is used; dbg: DefaultBindGroup of the (first) pipeline
fn build_program(res: &[Res], shape: u64, usage: u64, dbg: u64) -> String {
    let items: Vec<Item> = res.iter().enumerate().map(|(i, r)| Item::of_res(r, &format!("g{}", i), usage == 1)).collect();
    build_program_of(&items, shape, usage, dbg)
}

/// one global declaration of a generated program: its text and the statement that uses it
struct Item {
    name: String,
    decl: String,
    stmt: String,
}

impl Item {
    fn of_res(r: &Res, name: &str, via_param: bool) -> Item {
        Item { name: name.to_string(), decl: decl_text(r, name), stmt: use_text(r, name, via_param) }
    }
}

fn build_program_of(res: &[Item], shape: u64, usage: u64, dbg: u64) -> String {
    let mut s = String::new();
    s.push_str("struct Data { float4 a; uint b; };\nenum Level { Low, High = 3 };\ntemplate<typename T> T twice(T v) { return v + v; }\nstatic uint s_acc = 0;\n");
    for r in res {
        s.push_str(&r.decl);
    }
    let via = usage == 1;
    if via {
        s.push_str("uint load_from(BufferAddress b, uint o) { return b.Load<uint>(o); }\n");
        for r in res {
            s.push_str(&format!("void use_{}() {{ {} }}\n", r.name, r.stmt));
        }
    }
    // the statements of entry point `slot` out of `slots`
    let uses = |slot: usize, slots: usize| -> String {
        let mut u = String::new();
        for (i, r) in res.iter().enumerate() {
            if i % slots != slot {
                continue;
            }
            if usage == 2 && i + 1 != res.len() {
                continue;
            }
            if via {
                u.push_str(&format!(" use_{}();", r.name));
            } else {
                u.push(' ');
                u.push_str(&r.stmt);
            }
        }
        u
    };
    let dbg_text = |d: u64| if d == 0 { String::new() } else { format!(" DefaultBindGroup = {};", d) };
    let compute = |slot: usize, slots: usize| format!("[numthreads(8, 4, 2)] void CS(uint3 id : SV_DispatchThreadID) {{{} s_acc += twice(id.x) + (uint)High; }}\n", uses(slot, slots));
    let vertex_pixel = |s0: usize, slots: usize| {
        format!(
            "struct VA {{ float wet : WETNESS; uint mat : MATERIAL; }};\nvoid VS(uint vid : SV_VertexID, out float4 o_pos : SV_Position, out float2 o_uv : TEXCOORD, out VA o_v) {{{} o_pos = float4(0, 0, 0, 1); o_uv = float2(0, 0); o_v.wet = 0; o_v.mat = vid + s_acc; }}\nfloat4 PS(float4 pos : SV_Position, float2 uv : TEXCOORD, VA v) : SV_Target0 {{{} return float4(uv, v.wet, twice(1.0)); }}\n",
            uses(s0, slots),
            uses(s0 + 1, slots)
        )
    };
    match shape {
        0 => {
            s.push_str(&compute(0, 1));
            s.push_str(&format!("Pipeline P {{ ComputeShader = CS;{} }}\n", dbg_text(dbg)));
        }
        1 => {
            s.push_str(&vertex_pixel(0, 2));
            s.push_str(&format!("Pipeline G {{ VertexShader = VS; PixelShader = PS; RenderTargetFormat0 = \"R8G8B8A8_UNORM\"; DepthTargetFormat = \"D32_FLOAT\"; CullMode = \"Front\";{} }}\n", dbg_text(dbg)));
        }
        2 | 3 => {
            let task = shape == 3;
            let slots = if task { 3 } else { 2 };
            s.push_str("struct MV { float4 position : SV_Position; float2 uv : TEXCOORD; };\nstruct MP { uint material : MATERIAL; };\n");
            if task {
                s.push_str(&format!(
                    "struct Payload {{ uint start; }};\ngroupshared Payload lds_payload;\n[numthreads(16, 1, 1)] void TS(uint3 id : SV_DispatchThreadID) {{{} lds_payload.start = id.x; DispatchMesh(4u, 1u, 1u, lds_payload); }}\n",
                    uses(2, slots)
                ));
            }
            s.push_str(&format!(
                "[numthreads(32, 2, 1)]\n[outputtopology(\"triangle\")]\nvoid MS(uint3 id : SV_DispatchThreadID,{} out vertices MV o_v[64], out primitives MP o_p[32], out indices uint3 o_t[32]) {{{} SetMeshOutputCounts(64, 32); MV v; v.position = float4(0, 0, 0, 1); v.uv = float2(0, 0); o_v[id.x] = v; MP p; p.material = id.x % 8; o_p[id.x] = p; o_t[id.x] = uint3(0, 1, 2); }}\n",
                if task { " in payload Payload data," } else { "" },
                uses(0, slots)
            ));
            s.push_str(&format!("float4 PS(float2 uv : TEXCOORD, uint material : MATERIAL) : SV_Target0 {{{} return float4(uv, material, 1); }}\n", uses(1, slots)));
            s.push_str(&format!("Pipeline G {{{} MeshShader = MS; PixelShader = PS; RenderTargetFormat0 = \"R16G16B16A16_FLOAT\";{} }}\n", if task { " TaskShader = TS;" } else { "" }, dbg_text(dbg)));
        }
        _ => {
            s.push_str(&compute(0, 1));
            s.push_str(&vertex_pixel(0, 2));
            s.push_str(&format!("Pipeline P {{ ComputeShader = CS;{} }}\n", dbg_text(dbg)));
            s.push_str(&format!("Pipeline G {{ VertexShader = VS; PixelShader = PS; RenderTargetFormat0 = \"R8G8B8A8_UNORM\"; WindingOrder = \"Clockwise\";{} }}\n", dbg_text(1 - dbg.min(1))));
        }
    }
    s
}

/// One sub-space of resource programs: all sequences of exactly `len` declarations over `alpha`, crossed with the listed
/// shapes, usages, default bind groups and modes.
struct ResSpace {
    name: &'static str,
    alpha: Vec<Res>,
    len: usize,
    shapes: Vec<u64>,
    usages: Vec<u64>,
    dbgs: Vec<u64>,
    modes: Vec<Mode>,
    validate: bool,
    /// 1: every case; k > 1: the cases whose digit sum (shape, usage, group, mode and declaration digits) is a multiple of k.
    /// For every choice of all digits but one there are cases with every k-th value of the remaining digit, so every
    /// combination of up to (number of digits - 1) dimensions still occurs
    thin: u64,
}

impl ResSpace {
    fn keep(&self, idx: u64) -> bool {
        if self.thin <= 1 {
            return true;
        }
        let mut d = Vec::new();
        decode(idx, &self.radices(), &mut d);
        d.iter().sum::<u64>() % self.thin == 0
    }
    fn radices(&self) -> Vec<u64> {
        let mut r = vec![self.shapes.len() as u64, self.usages.len() as u64, self.dbgs.len() as u64, self.modes.len() as u64];
        for _ in 0..self.len {
            r.push(self.alpha.len() as u64);
        }
        r
    }
    fn total(&self) -> u64 {
        product(&self.radices())
    }
    fn case(&self, idx: u64) -> Case {
        let mut d = Vec::new();
        decode(idx, &self.radices(), &mut d);
        let shape = self.shapes[d[0] as usize];
        let usage = self.usages[d[1] as usize];
        let dbg = self.dbgs[d[2] as usize];
        let mode = self.modes[d[3] as usize].clone();
        // most significant digit = first declaration, so that simple sequences come first
        let res: Vec<Res> = (0..self.len).map(|i| self.alpha[d[4 + self.len - 1 - i] as usize]).collect();
        let src = build_program(&res, shape, usage, dbg);
        Case { name: format!("{}|shape{}|usage{}|dbg{}|{}", self.name, shape, usage, dbg, res.iter().map(|r| format!("{}.{}.{}", KINDS[r.kind].ty, r.array, r.group)).collect::<Vec<_>>().join("+")), src, mode, validate: self.validate }
    }
}

fn res_spaces(quick: bool) -> Vec<ResSpace> {
    let all_shapes: Vec<u64> = (0..N_SHAPES).collect();
    let all_usages: Vec<u64> = (0..N_USAGES).collect();
    let mut v = Vec::new();
    // one declaration: the full alphabet (every kind × 4 array forms × 4 group annotations) against every pipeline shape,
    // usage and default group (thorough: and both modes)
    v.push(ResSpace {
        name: "res1",
        alpha: alphabet(KINDS.len(), 4, 4),
        len: 1,
        shapes: all_shapes.clone(),
        usages: all_usages.clone(),
        dbgs: vec![0, 1],
        modes: if quick { vec![Mode::All] } else { vec![Mode::All, Mode::NoPipeline] },
        validate: true,
        thin: if quick { 2 } else { 1 },
    });
    // two declarations over the allocator classes: every shape
    v.push(ResSpace {
        name: "res2-classes",
        alpha: if quick { alphabet(N_CLASS_KINDS, 2, 2) } else { alphabet(N_CLASS_KINDS, 2, 3) },
        len: 2,
        shapes: all_shapes.clone(),
        usages: if quick { vec![0] } else { all_usages.clone() },
        dbgs: if quick { vec![0] } else { vec![0, 1] },
        modes: vec![Mode::All],
        validate: false,
        thin: if quick { 2 } else { 1 },
    });
    // two declarations over the full alphabet
    v.push(ResSpace {
        name: "res2-full",
        alpha: if quick { alphabet(KINDS.len(), 2, 2) } else { alphabet(KINDS.len(), 3, 4) },
        len: 2,
        shapes: if quick { vec![0] } else { vec![0, 2] },
        usages: vec![0],
        dbgs: vec![0],
        modes: vec![Mode::All],
        validate: false,
        thin: 1,
    });
    // three declarations over the allocator classes
    v.push(ResSpace {
        name: "res3-classes",
        alpha: if quick { alphabet(N_CLASS_KINDS, 1, 2) } else { alphabet(N_CLASS_KINDS, 2, 2) },
        len: 3,
        shapes: if quick { vec![0] } else { vec![0, 1, 2, 4] },
        usages: vec![0],
        dbgs: vec![0],
        modes: vec![Mode::All],
        validate: false,
        thin: if quick { 3 } else { 1 },
    });
    v
}

// ---------------------------------------------------------------------------------------------
// space 2a: the bind-group NUMBER as a dimension (G-GROUPNUM). The resource alphabet above knows the group annotations
// only with the numbers 1 and 2 and DefaultBindGroup only as 0 / 1. Here the number itself is enumerated: every bindable kind
// × every way to name a group (`register(spaceN)`, `[[rssl::bind_group(N)]]`, `[[vk::binding(5, N)]]`, or none) × every N in
// 0..=max × every DefaultBindGroup in {absent, 1..=max} × a neighbour declaration without annotation (which therefore lands
// in the default group). (Added after a seeded change that made only the Vulkan flavour refuse descriptor sets >= 4 was
// missed: no generated program had a group number above 2.)

const GROUP_FORMS: [&str; 4] = ["none", "register-space", "rssl-bind_group", "vk-binding"];

#[derive(Clone)]
struct GroupCase {
    kind: usize,
    array: u8,
    /// index into GROUP_FORMS
    form: usize,
    /// the group number written in the annotation
    n: u64,
    /// 0: no DefaultBindGroup; d: `DefaultBindGroup = d`
    dbg: u64,
    /// None or a neighbour (index for `neighbour`) declared after the annotated declaration
    after: Option<usize>,
    shape: u64,
    usage: u64,
    mode: Mode,
    validate: bool,
}

impl GroupCase {
    fn item(&self, name: &str) -> Item {
        // the declaration text of the alphabet with the group number substituted
        let base = Res { kind: self.kind, array: self.array, group: self.form as u8 };
        let decl = decl_text(&base, name)
            .replace(" : register(space1)", &format!(" : register(space{})", self.n))
            .replace("[[rssl::bind_group(2)]]", &format!("[[rssl::bind_group({})]]", self.n))
            .replace("[[vk::binding(5, 1)]]", &format!("[[vk::binding(5, {})]]", self.n));
        Item { name: name.to_string(), decl, stmt: use_text(&base, name, self.usage == 1) }
    }

    fn case(&self) -> Case {
        let mut items = vec![self.item("g0")];
        if let Some(k) = self.after {
            items.push(neighbour(k, "g1"));
        }
        let src = build_program_of(&items, self.shape, self.usage, self.dbg);
        let name = format!(
            "groupnum|{}.{}|{}|n{}|dbg{}|after[{}]|shape{}|usage{}",
            KINDS[self.kind].ty,
            self.array,
            GROUP_FORMS[self.form],
            self.n,
            self.dbg,
            self.after.map(|k| NEIGHBOUR_NAMES[k]).unwrap_or(""),
            self.shape,
            self.usage
        );
        Case { name, src, mode: self.mode.clone(), validate: self.validate }
    }
}

/// the largest group number of the tier (quick: 0..=8, one beyond the 8 sets of the usual Vulkan minimum; thorough: 0..=9
/// and 31, 32)
fn group_numbers(quick: bool) -> Vec<u64> {
    let mut v: Vec<u64> = (0..=if quick { 8 } else { 9 }).collect();
    if !quick {
        v.extend([31, 32]);
    }
    v
}

/// quick: the 10 allocator-class kinds that take a group annotation × {no annotation, 3 annotation forms × 9 numbers} (28)
/// × 9 default groups × {alone, followed by a cbuffer, followed by a buffer address} (3) = 7 560 cases, plus the 12 other
/// object kinds × 28 annotation choices, alone and without DefaultBindGroup (336 cases); compute shape, direct usage.
/// thorough: all 22 kinds with 12 numbers (37 annotation choices), 12 default groups and all 6 contexts (58 608 cases),
/// plus (one dimension widened at a time) the other four pipeline shapes, the array form `[2]`, usage through helper
/// functions / of the last declaration only, layout validation and the no-pipeline mode, each alone or followed by a
/// cbuffer, over the allocator-class kinds.
fn group_cases(quick: bool) -> Vec<GroupCase> {
    let numbers = group_numbers(quick);
    let dbgs: Vec<u64> = numbers.clone(); // 0 = absent
    let all_kinds: Vec<usize> = (0..KINDS.len()).filter(|k| KINDS[*k].class != KindClass::Plain).collect();
    let class_kinds: Vec<usize> = all_kinds.iter().copied().filter(|k| *k < N_CLASS_KINDS).collect();
    let other_kinds: Vec<usize> = all_kinds.iter().copied().filter(|k| *k >= N_CLASS_KINDS).collect();
    let mut annotations: Vec<(usize, u64)> = vec![(0, 0)];
    // simplest first: small numbers before large ones
    for n in &numbers {
        for form in 1..GROUP_FORMS.len() {
            annotations.push((form, *n));
        }
    }
    let alone: Vec<Option<usize>> = vec![None];
    let contexts_quick: Vec<Option<usize>> = vec![None, Some(1), Some(3)];
    let contexts_all: Vec<Option<usize>> = std::iter::once(None).chain((0..N_NEIGHBOURS).map(Some)).collect();
    let few: Vec<Option<usize>> = vec![None, Some(1)];
    let mut out = Vec::new();
    let mut push = |kinds: &Vec<usize>, dbgs: &[u64], contexts: &Vec<Option<usize>>, arrays: &[u8], shapes: &[u64], usages: &[u64], modes: &[Mode], validates: &[bool]| {
        for (form, n) in &annotations {
            for dbg in dbgs {
                for after in contexts {
                    for kind in kinds {
                        for array in arrays {
                            if *array > 0 && KINDS[*kind].class != KindClass::Object {
                                continue;
                            }
                            for shape in shapes {
                                for usage in usages {
                                    for mode in modes {
                                        for validate in validates {
                                            out.push(GroupCase { kind: *kind, array: *array, form: *form, n: *n, dbg: *dbg, after: *after, shape: *shape, usage: *usage, mode: mode.clone(), validate: *validate });
                                        }
                                    }
                                }
                            }
                        }
                    }
                }
            }
        }
    };
    if quick {
        push(&class_kinds, &dbgs, &contexts_quick, &[0], &[0], &[0], &[Mode::All], &[false]);
        push(&other_kinds, &[0], &alone, &[0], &[0], &[0], &[Mode::All], &[false]);
    } else {
        push(&all_kinds, &dbgs, &contexts_all, &[0], &[0], &[0], &[Mode::All], &[false]);
        push(&class_kinds, &dbgs, &few, &[0], &[1, 2, 3, 4], &[0], &[Mode::All], &[false]);
        push(&class_kinds, &dbgs, &few, &[1], &[0], &[0], &[Mode::All], &[false]);
        push(&class_kinds, &dbgs, &few, &[0], &[0], &[1, 2], &[Mode::All], &[false]);
        push(&class_kinds, &dbgs, &few, &[0], &[0], &[0], &[Mode::All], &[true]);
        push(&class_kinds, &dbgs, &few, &[0], &[0], &[0], &[Mode::NoPipeline], &[false]);
    }
    out
}

// ---------------------------------------------------------------------------------------------
// space 2b: the contents of the declarations that have a body (G-BODY). The resource alphabet above gives every cbuffer and
// every struct two members. Here the member list itself is enumerated: every sequence of 0..=max members over the member
// alphabet (the empty list first), as the body of a cbuffer, of the struct of a ConstantBuffer<T> and of the struct of a
// (RW)StructuredBuffer<T>, alone and at every position next to every neighbour declaration, with and without a group
// annotation, with the members read by the entry point or not mentioned at all.

#[derive(Copy, Clone)]
struct MemberTy {
    ty: &'static str,
    /// array suffix of the declarator
    arr: &'static str,
    /// expression that reads a scalar out of the member `@` (forms that the Metal exporter implements)
    scalar: &'static str,
}

const MEMBER_TYPES: [MemberTy; 8] = [
    MemberTy { ty: "float4", arr: "", scalar: "@.x" },
    MemberTy { ty: "uint", arr: "", scalar: "@" },
    MemberTy { ty: "float4x4", arr: "", scalar: "mul(@, float4(1, 0, 0, 0)).x" },
    MemberTy { ty: "Data", arr: "", scalar: "@.b" },
    MemberTy { ty: "float", arr: "[3]", scalar: "@[2]" },
    // thorough tier
    MemberTy { ty: "float3", arr: "", scalar: "@.y" },
    MemberTy { ty: "Level", arr: "", scalar: "@" },
    MemberTy { ty: "half", arr: "", scalar: "@" },
];

fn member_alphabet(quick: bool) -> &'static [MemberTy] {
    if quick { &MEMBER_TYPES[..5] } else { &MEMBER_TYPES[..] }
}

/// all member lists of length 0..=max over the alphabet (as indices into MEMBER_TYPES), shortest first
fn member_lists(quick: bool) -> Vec<Vec<usize>> {
    let n = member_alphabet(quick).len();
    let max = if quick { 2 } else { 3 };
    let mut out: Vec<Vec<usize>> = vec![vec![]];
    let mut last: Vec<Vec<usize>> = vec![vec![]];
    for _ in 0..max {
        let mut next = Vec::new();
        for l in &last {
            for m in 0..n {
                let mut x = l.clone();
                x.push(m);
                next.push(x);
            }
        }
        out.extend(next.iter().cloned());
        last = next;
    }
    out
}

/// 0 `cbuffer N { .. }`, 1 `struct N_t { .. }; ConstantBuffer<N_t> N;`, 2 `StructuredBuffer<N_t> N;`, 3 `RWStructuredBuffer<N_t> N;`
const BODY_FORMS: [&str; 4] = ["cbuffer", "ConstantBuffer", "StructuredBuffer", "RWStructuredBuffer"];

/// the declarations that stand next to the one with the enumerated body: a texture, a cbuffer with members, a writable
/// buffer, a buffer address (an inline constant for Vulkan with buffer addresses) and a second body-less cbuffer
const N_NEIGHBOURS: usize = 5;
fn neighbour(k: usize, name: &str) -> Item {
    match k {
        0 => Item::of_res(&Res { kind: 0, array: 0, group: 0 }, name, false),
        1 => Item::of_res(&Res { kind: 8, array: 0, group: 0 }, name, false),
        2 => Item::of_res(&Res { kind: 15, array: 0, group: 0 }, name, false),
        3 => Item::of_res(&Res { kind: 4, array: 0, group: 0 }, name, false),
        _ => Item { name: name.to_string(), decl: format!("cbuffer {} {{ }}\n", name), stmt: String::new() },
    }
}
const NEIGHBOUR_NAMES: [&str; N_NEIGHBOURS] = ["Texture2D", "cbuffer", "RWByteAddressBuffer", "BufferAddress", "empty-cbuffer"];

#[derive(Clone)]
struct BodyCase {
    form: usize,
    members: Vec<usize>,
    /// 0 none, 1 `register(space1)`, 2 `[[rssl::bind_group(2)]]`, 3 `[[vk::binding(5, 1)]]`
    group: u8,
    /// the members are read (the object is mentioned when there are none) / nothing mentions the declaration
    used: bool,
    /// neighbour declarations before and after
    before: Vec<usize>,
    after: Vec<usize>,
    shape: u64,
    validate: bool,
    mode: Mode,
}

impl BodyCase {
    fn item(&self, name: &str) -> Item {
        let mut prefix = String::new();
        match self.group {
            2 => prefix.push_str("[[rssl::bind_group(2)]] "),
            3 => prefix.push_str("[[vk::binding(5, 1)]] "),
            _ => {}
        }
        let suffix = if self.group == 1 { " : register(space1)" } else { "" };
        let mut body = String::new();
        for (i, m) in self.members.iter().enumerate() {
            let t = &MEMBER_TYPES[*m];
            body.push_str(&format!(" {} {}_m{}{};", t.ty, name, i, t.arr));
        }
        let decl = match self.form {
            0 => format!("{}cbuffer {}{} {{{} }}\n", prefix, name, suffix, body),
            f => format!("struct {}_t {{{} }};\n{}{}<{}_t> {}{};\n", name, body, prefix, BODY_FORMS[f], name, name, suffix),
        };
        let mut stmt = String::new();
        if self.used {
            let object = match self.form {
                0 => String::new(),
                1 => format!("{}.", name),
                _ => format!("{}.Load(1).", name),
            };
            for (i, m) in self.members.iter().enumerate() {
                let member = format!("{}{}_m{}", object, name, i);
                stmt.push_str(&format!("s_acc += (uint){}; ", MEMBER_TYPES[*m].scalar.replace('@', &member)));
            }
            if self.members.is_empty() && self.form != 0 {
                stmt.push_str(&format!("{};", name));
            }
        }
        Item { name: name.to_string(), decl, stmt }
    }

    fn case(&self) -> Case {
        let mut items = Vec::new();
        for k in &self.before {
            items.push(neighbour(*k, &format!("g{}", items.len())));
        }
        items.push(self.item(&format!("g{}", items.len())));
        for k in &self.after {
            items.push(neighbour(*k, &format!("g{}", items.len())));
        }
        let src = build_program_of(&items, self.shape, 0, 0);
        let nb = |v: &Vec<usize>| v.iter().map(|k| NEIGHBOUR_NAMES[*k]).collect::<Vec<_>>().join(",");
        let name = format!(
            "body|{}|members[{}]|group{}|{}|before[{}]|after[{}]|shape{}",
            BODY_FORMS[self.form],
            self.members.iter().map(|m| format!("{}{}", MEMBER_TYPES[*m].ty, MEMBER_TYPES[*m].arr)).collect::<Vec<_>>().join(","),
            self.group,
            if self.used { "used" } else { "unused" },
            nb(&self.before),
            nb(&self.after),
            self.shape
        );
        Case { name, src, mode: self.mode.clone(), validate: self.validate }
    }
}

/// quick: forms 0..3 × member lists of ≤ 2 members over 5 types (31) × {alone, one neighbour before, one after} (11) ×
/// {(no group, used), (space1, used), (no group, unused)} × compute shape.
/// thorough: 4 forms × member lists of ≤ 3 members over 8 types (585) × {alone, one neighbour before / after, one before and
/// one after} (36) × 4 group annotations × used/unused × {compute, vertex+pixel, compute and graphics} × layout validation
/// × mode would be 8 M cases; it is enumerated as the union of (a) the quick bounds widened one dimension at a time and
/// (b) all dimensions but validation and mode together for the member lists of ≤ 1 member.
fn body_cases(quick: bool) -> Vec<BodyCase> {
    let lists = member_lists(quick);
    let short: Vec<Vec<usize>> = lists.iter().filter(|l| l.len() <= 1).cloned().collect();
    let lists2: Vec<Vec<usize>> = lists.iter().filter(|l| l.len() <= 2).cloned().collect();
    let mut contexts1: Vec<(Vec<usize>, Vec<usize>)> = vec![(vec![], vec![])];
    for k in 0..N_NEIGHBOURS {
        contexts1.push((vec![k], vec![]));
        contexts1.push((vec![], vec![k]));
    }
    let mut contexts2 = contexts1.clone();
    for a in 0..N_NEIGHBOURS {
        for b in 0..N_NEIGHBOURS {
            contexts2.push((vec![a], vec![b]));
        }
    }
    let mut out = Vec::new();
    let mut push = |lists: &Vec<Vec<usize>>, forms: usize, contexts: &Vec<(Vec<usize>, Vec<usize>)>, gu: &[(u8, bool)], shapes: &[u64], validates: &[bool], modes: &[Mode]| {
        // simplest first: context, then member list, then the rest
        for (before, after) in contexts {
            for members in lists {
                for form in 0..forms {
                    for (group, used) in gu {
                        for shape in shapes {
                            for validate in validates {
                                for mode in modes {
                                    out.push(BodyCase { form, members: members.clone(), group: *group, used: *used, before: before.clone(), after: after.clone(), shape: *shape, validate: *validate, mode: mode.clone() });
                                }
                            }
                        }
                    }
                }
            }
        }
    };
    let gu_quick = [(0u8, true), (1u8, true), (0u8, false)];
    let gu_all = [(0u8, true), (1, true), (2, true), (3, true), (0, false), (1, false), (2, false), (3, false)];
    if quick {
        push(&lists, 3, &contexts1, &gu_quick, &[0], &[false], &[Mode::All]);
    } else {
        // (a) one dimension widened at a time over the quick bounds (every push contains or extends the quick space)
        let alone = vec![(vec![], vec![])];
        let few = vec![(vec![], vec![]), (vec![1], vec![]), (vec![], vec![0])];
        push(&lists, 4, &alone, &gu_quick, &[0], &[false], &[Mode::All]); // ≤ 3 members over 8 types
        push(&lists2, 4, &contexts2, &gu_quick, &[0], &[false], &[Mode::All]); // a neighbour on both sides
        push(&lists2, 4, &few, &gu_all, &[0], &[false, true], &[Mode::All]); // every group annotation, layout validation
        push(&lists2, 4, &contexts1, &gu_quick, &[1, 4], &[false], &[Mode::All]); // graphics shapes
        push(&lists2, 4, &contexts1, &gu_quick, &[0], &[false], &[Mode::NoPipeline]); // no-pipeline mode
        // (b) all dimensions together for at most one member
        push(&short, 4, &contexts2, &gu_all, &[0, 4], &[false], &[Mode::All]);
    }
    out
}

// ---------------------------------------------------------------------------------------------
// space 2c: the stage interface of graphics pipelines (G-IFACE). The programs above hand a fixed set of scalar / vector
// attributes from stage to stage. Here the attributes themselves are enumerated: every list of 0..=2 attributes over
// element type × declarator shape (plain, `[1]`, `[2]`, `[2][3]`) × rate (per vertex, per primitive: mesh pipelines only) ×
// interpolation modifier on the pixel side, produced through a struct or through entry-point parameters, and consumed by the
// pixel entry point through parameters or through a struct, for vertex+pixel and mesh+pixel pipelines. (Added after a seeded
// change that made the Vulkan flavour refuse an array-typed per-primitive pixel parameter was missed: every generated pixel
// input had been a scalar or a vector.)

#[derive(Copy, Clone)]
struct ElemTy {
    ty: &'static str,
    /// a value of the type
    lit: &'static str,
    /// suffix that reads a scalar out of a value of the type
    scalar: &'static str,
}

const IFACE_TYPES: [ElemTy; 7] = [
    ElemTy { ty: "float", lit: "1.0", scalar: "" },
    ElemTy { ty: "uint3", lit: "uint3(1, 2, 3)", scalar: ".z" },
    ElemTy { ty: "uint", lit: "1u", scalar: "" },
    ElemTy { ty: "float2", lit: "float2(1, 0)", scalar: ".y" },
    ElemTy { ty: "float4", lit: "float4(0, 0, 0, 1)", scalar: ".w" },
    // thorough tier
    ElemTy { ty: "int", lit: "1", scalar: "" },
    ElemTy { ty: "float3", lit: "float3(0, 1, 0)", scalar: ".x" },
];

/// (declarator suffix, subscript of its last element)
const IFACE_DECLS: [(&str, &str); 4] = [("", ""), ("[2]", "[1]"), ("[1]", "[0]"), ("[2][3]", "[1][2]")];

const IFACE_INTERP: [&str; 2] = ["", "nointerpolation "];

#[derive(Copy, Clone, PartialEq, Eq)]
struct Attr {
    ty: usize,
    decl: usize,
    /// 0 per vertex, 1 per primitive (mesh pipelines)
    rate: u8,
    /// index into IFACE_INTERP: modifier of the pixel input
    interp: usize,
}

#[derive(Clone)]
struct IfaceCase {
    /// 0 vertex + pixel, 1 mesh + pixel
    shape: u8,
    attrs: Vec<Attr>,
    /// the producing stage writes the attributes through a struct / through one `out` parameter each (vertex stage: every
    /// attribute; mesh stage: the single per-primitive attribute, per-vertex attributes stay in the vertex struct)
    producer_struct: bool,
    /// the pixel entry point reads the attributes through one struct parameter / through one parameter each
    consumer_struct: bool,
}

impl IfaceCase {
    /// whether the parameter form of the producer exists for this attribute list
    fn direct_producer_exists(shape: u8, attrs: &[Attr]) -> bool {
        match shape {
            0 => !attrs.is_empty(),
            _ => attrs.iter().filter(|a| a.rate == 1).count() == 1,
        }
    }

    fn source(&self) -> String {
        let mut s = String::new();
        s.push_str("Texture2D g_t;\ncbuffer C { float4 g_c; }\n");
        let sem = |i: usize| format!("ATTR{}", (b'A' + i as u8) as char);
        let member = |i: usize, a: &Attr, interp: bool| format!(" {}{} a{}{} : {};", if interp { IFACE_INTERP[a.interp] } else { "" }, IFACE_TYPES[a.ty].ty, i, IFACE_DECLS[a.decl].0, sem(i));
        let write = |object: &str, i: usize, a: &Attr| format!(" {}a{}{} = {};", object, i, IFACE_DECLS[a.decl].1, IFACE_TYPES[a.ty].lit);
        let with_rate = |rate: u8| -> Vec<(usize, &Attr)> { self.attrs.iter().enumerate().filter(|(_, a)| a.rate == rate).collect() };
        // ---- producer
        if self.shape == 0 {
            let mut params = String::new();
            let mut body = String::new();
            if self.producer_struct {
                s.push_str("struct VO {");
                for (i, a) in self.attrs.iter().enumerate() {
                    s.push_str(&member(i, a, false));
                    body.push_str(&write("o_s.", i, a));
                }
                s.push_str(" };\n");
                params.push_str(", out VO o_s");
            } else {
                for (i, a) in self.attrs.iter().enumerate() {
                    params.push_str(&format!(", out {} a{}{} : {}", IFACE_TYPES[a.ty].ty, i, IFACE_DECLS[a.decl].0, sem(i)));
                    body.push_str(&write("", i, a));
                }
            }
            s.push_str(&format!("void VS(uint vid : SV_VertexID, out float4 o_pos : SV_Position{}) {{ o_pos = float4(0, 0, 0, 1);{} }}\n", params, body));
        } else {
            let verts = with_rate(0);
            let prims = with_rate(1);
            s.push_str("struct MV { float4 position : SV_Position;");
            let mut body = String::from(" MV v; v.position = float4(0, 0, 0, 1);");
            for (i, a) in &verts {
                s.push_str(&member(*i, a, false));
                body.push_str(&write("v.", *i, a));
            }
            s.push_str(" };\n");
            body.push_str(" o_v[id.x] = v;");
            let mut prim_param = String::new();
            if !prims.is_empty() {
                if self.producer_struct {
                    s.push_str("struct MP {");
                    body.push_str(" MP p;");
                    for (i, a) in &prims {
                        s.push_str(&member(*i, a, false));
                        body.push_str(&write("p.", *i, a));
                    }
                    s.push_str(" };\n");
                    body.push_str(" o_p[id.x] = p;");
                    prim_param.push_str(" out primitives MP o_p[32],");
                } else {
                    let (i, a) = prims[0];
                    prim_param.push_str(&format!(" out primitives {} o_p[32]{} : {},", IFACE_TYPES[a.ty].ty, IFACE_DECLS[a.decl].0, sem(i)));
                    body.push_str(&format!(" o_p[id.x]{} = {};", IFACE_DECLS[a.decl].1, IFACE_TYPES[a.ty].lit));
                }
            }
            s.push_str(&format!(
                "[numthreads(32, 1, 1)]\n[outputtopology(\"triangle\")]\nvoid MS(uint3 id : SV_DispatchThreadID, out vertices MV o_v[64],{} out indices uint3 o_t[32]) {{ SetMeshOutputCounts(64, 32);{} o_t[id.x] = uint3(0, 1, 2); }}\n",
                prim_param, body
            ));
        }
        // ---- consumer
        let mut params = String::new();
        let mut reads = String::new();
        if self.consumer_struct {
            s.push_str("struct PI {");
            for (i, a) in self.attrs.iter().enumerate() {
                s.push_str(&member(i, a, true));
                reads.push_str(&format!(" r += (float)i.a{}{}{};", i, IFACE_DECLS[a.decl].1, IFACE_TYPES[a.ty].scalar));
            }
            s.push_str(" };\n");
            params.push_str(", PI i");
        } else {
            for (i, a) in self.attrs.iter().enumerate() {
                params.push_str(&format!(", {}{} a{}{} : {}", IFACE_INTERP[a.interp], IFACE_TYPES[a.ty].ty, i, IFACE_DECLS[a.decl].0, sem(i)));
                reads.push_str(&format!(" r += (float)a{}{}{};", i, IFACE_DECLS[a.decl].1, IFACE_TYPES[a.ty].scalar));
            }
        }
        s.push_str(&format!("float4 PS(float4 pos : SV_Position{}) : SV_Target0 {{ g_t; float r = g_c.x;{} return float4(r, 0, 0, 1); }}\n", params, reads));
        if self.shape == 0 {
            s.push_str("Pipeline G { VertexShader = VS; PixelShader = PS; RenderTargetFormat0 = \"R8G8B8A8_UNORM\"; CullMode = \"Back\"; }\n");
        } else {
            s.push_str("Pipeline G { MeshShader = MS; PixelShader = PS; RenderTargetFormat0 = \"R16G16B16A16_FLOAT\"; }\n");
        }
        s
    }

    fn case(&self) -> Case {
        let attrs = self
            .attrs
            .iter()
            .map(|a| format!("{}{}{}{}", IFACE_INTERP[a.interp].trim_end().replace("nointerpolation", "flat "), IFACE_TYPES[a.ty].ty, IFACE_DECLS[a.decl].0, if a.rate == 1 { "/primitive" } else { "/vertex" }))
            .collect::<Vec<_>>()
            .join(",");
        let name = format!(
            "iface|{}|attrs[{}]|producer-{}|consumer-{}",
            if self.shape == 0 { "vertex+pixel" } else { "mesh+pixel" },
            attrs,
            if self.producer_struct { "struct" } else { "params" },
            if self.consumer_struct { "struct" } else { "params" }
        );
        Case { name, src: self.source(), mode: Mode::All, validate: false }
    }
}

/// quick: (a) every single attribute over 5 element types × 4 declarator shapes × both interpolation modifiers × rate, and
/// (b) every ordered pair of attributes over {float, uint3} × {plain, `[2]`} × rate without modifier; each with every
/// producer / consumer form that exists, for both pipeline shapes; the empty list first.
/// thorough: (a) over 7 element types and (b) over 7 element types × 4 declarator shapes × rate (pairs) plus both modifiers
/// on the second attribute for the quick alphabet.
fn iface_cases(quick: bool) -> Vec<IfaceCase> {
    let n_ty_single = if quick { 5 } else { IFACE_TYPES.len() };
    let (n_ty_pair, n_decl_pair) = if quick { (2, 2) } else { (IFACE_TYPES.len(), IFACE_DECLS.len()) };
    let mut out: Vec<IfaceCase> = Vec::new();
    let mut push_forms = |shape: u8, attrs: &[Attr]| {
        for producer_struct in [true, false] {
            if !producer_struct && !IfaceCase::direct_producer_exists(shape, attrs) {
                continue;
            }
            for consumer_struct in [false, true] {
                out.push(IfaceCase { shape, attrs: attrs.to_vec(), producer_struct, consumer_struct });
            }
        }
    };
    let rates = |shape: u8| -> &'static [u8] { if shape == 0 { &[0] } else { &[0, 1] } };
    for shape in [0u8, 1u8] {
        push_forms(shape, &[]);
    }
    // (a) one attribute; simplest first: declarator shape, then type, then the rest
    for decl in 0..IFACE_DECLS.len() {
        for ty in 0..n_ty_single {
            for interp in 0..IFACE_INTERP.len() {
                for shape in [0u8, 1u8] {
                    for rate in rates(shape) {
                        push_forms(shape, &[Attr { ty, decl, rate: *rate, interp }]);
                    }
                }
            }
        }
    }
    // (b) two attributes
    let interps2: &[usize] = if quick { &[0] } else { &[0, 1] };
    for shape in [0u8, 1u8] {
        let mut alpha: Vec<Attr> = Vec::new();
        for decl in 0..n_decl_pair {
            for ty in 0..n_ty_pair {
                for rate in rates(shape) {
                    alpha.push(Attr { ty, decl, rate: *rate, interp: 0 });
                }
            }
        }
        for a in &alpha {
            for b in &alpha {
                for i2 in interps2 {
                    // the modifier dimension of pairs: the quick alphabet only
                    if *i2 != 0 && (b.ty >= 2 || b.decl >= 2 || a.ty >= 2 || a.decl >= 2) {
                        continue;
                    }
                    push_forms(shape, &[*a, Attr { interp: *i2, ..*b }]);
                }
            }
        }
    }
    out
}

// ---------------------------------------------------------------------------------------------
// space 3: declarations whose name is a word that one of the exporters must avoid (read from the exporters' own lists)

fn reserved_words() -> Vec<String> {
    let mut v = Vec::new();
    for f in ["hlsl/src/names.rs", "msl/src/names.rs"] {
        if let Ok(text) = std::fs::read_to_string(format!("{}/{}", repo_root(), f)) {
            for l in text.lines() {
                let t = l.trim();
                if let Some(w) = t.strip_prefix('"').and_then(|r| r.strip_suffix("\",")) {
                    if !w.is_empty() && w.bytes().all(|b| b.is_ascii_alphanumeric() || b == b'_') {
                        v.push(w.to_string());
                    }
                }
            }
        }
    }
    v.extend(["g_plain", "InlineDescriptor0", "g_inlineDescriptor0", "ComputeShaderEntry", "ArgumentBuffer0", "set0", "helper"].iter().map(|s| s.to_string()));
    v.sort();
    v.dedup();
    v
}

const N_NAME_FORMS: u64 = 6;
fn named_program(word: &str, form: u64) -> String {
    match form {
        0 => format!("Texture2D {w};\n[numthreads(2, 3, 4)] void CS() {{ {w}; }}\nPipeline P {{ ComputeShader = CS; }}\n", w = word),
        1 => format!("const BufferAddress {w} : register(space1);\nRWByteAddressBuffer g_o;\n[numthreads(2, 3, 4)] void CS() {{ g_o.Store<uint>(0, {w}.Load<uint>(4)); }}\nPipeline P {{ ComputeShader = CS; }}\n", w = word),
        2 => format!("cbuffer {w} {{ float4 g_m; }}\nRWByteAddressBuffer g_o;\n[numthreads(2, 3, 4)] void CS() {{ g_o.Store<float4>(0, g_m); }}\nPipeline P {{ ComputeShader = CS; }}\n", w = word),
        3 => format!("cbuffer C {{ float4 {w}; }}\nRWByteAddressBuffer g_o;\n[numthreads(2, 3, 4)] void CS() {{ g_o.Store<float4>(0, {w}); }}\nPipeline P {{ ComputeShader = CS; }}\n", w = word),
        4 => format!("const SamplerState {w} = StaticSampler {{ Filter = MIN_MAG_MIP_POINT; }};\nSamplerState g_s;\n[numthreads(2, 3, 4)] void CS() {{ {w}; g_s; }}\nPipeline P {{ ComputeShader = CS; }}\n", w = word),
        _ => format!("RWByteAddressBuffer g_o;\nuint {w}(uint v) {{ return v + 1; }}\n[numthreads(2, 3, 4)] void {w}_entry() {{ g_o.Store<uint>(0, {w}(1)); }}\nPipeline {w} {{ ComputeShader = {w}_entry; }}\n", w = word),
    }
}

// ---------------------------------------------------------------------------------------------
// run

const MUT_VARIANTS: u64 = 4;
fn mut_variant(k: u64) -> (Mode, bool) {
    match k % MUT_VARIANTS {
        0 => (Mode::All, true),
        1 => (Mode::NoPipeline, false),
        2 => (Mode::All, false),
        _ => (Mode::NoPipeline, true),
    }
}

pub fn run(ctx: &Ctx) -> i32 {
    let mut rep = Report::new("exploration");
    rep.rule = "each program is compiled for the four configurations in the same mode; non-trivial = either all four reject it in the front end with one diagnostic (distinct = front-end phase + diagnostic message) or the three HLSL flavours emit pipelines whose texts, stages, state and bindings were related (distinct = DirectX text + binding set)".into();

    // ---- space 1: fixed programs × modes × layout validation
    let fixed = fixed_programs();
    let r = run_par(ctx, fixed.len() as u64 * 4, 1, |idx, acc| {
        acc.cur_index = idx; // spaces are ranked: the replay of a violation class comes from the earliest space that shows it
        let (n, s) = &fixed[(idx / 4) as usize];
        let (mode, validate) = mut_variant(idx % 4);
        let c = Case { name: n.clone(), src: s.clone(), mode, validate };
        let t0 = thread_cpu_s();
        check_case(&c, acc);
        acc.add("cpu_us fixed_programs", ((thread_cpu_s() - t0) * 1e6) as u64);
        if idx % 41 == 0 {
            acc.sample(obj(vec![("space", "fixed".into()), ("program", n.as_str().into()), ("mode", mode_text(&c.mode).into())]));
        }
    });
    rep.absorb("fixed_programs", r);
    eprintln!("[C18] fixed programs done at {:.1}s", ctx.start.elapsed().as_secs_f64());
    rep.cov("fixed_programs_listed", Json::Int(fixed.len() as i64));

    // ---- space 2c: the stage interface of graphics pipelines (run early: it is small and must not be cut by the budget)
    let ifaces = iface_cases(ctx.quick());
    let r = run_par(ctx, ifaces.len() as u64, 8, |idx, acc| {
        acc.cur_index = (8u64 << 40) + idx;
        let c = ifaces[idx as usize].case();
        let t0 = thread_cpu_s();
        check_case(&c, acc);
        acc.add("cpu_us iface", ((thread_cpu_s() - t0) * 1e6) as u64);
        if idx % 97 == 5 {
            acc.sample(obj(vec![("space", "iface".into()), ("case", c.name.as_str().into()), ("source", one_line(&c.src, 400).into())]));
        }
    });
    rep.absorb("stage_interfaces", r);
    rep.cov("iface_element_types", Json::Int(ctx.pick(5i64, IFACE_TYPES.len() as i64)));
    rep.cov("iface_declarator_shapes", Json::Int(IFACE_DECLS.len() as i64));
    eprintln!("[C18] stage interfaces ({} cases) done at {:.1}s", ifaces.len(), ctx.start.elapsed().as_secs_f64());

    // ---- space 2a: the bind-group number (run early: it is small and must not be cut by the budget)
    let groups = group_cases(ctx.quick());
    let r = run_par(ctx, groups.len() as u64, 32, |idx, acc| {
        acc.cur_index = (9u64 << 40) + idx;
        let c = groups[idx as usize].case();
        let t0 = thread_cpu_s();
        check_case(&c, acc);
        acc.add("cpu_us groupnum", ((thread_cpu_s() - t0) * 1e6) as u64);
        if idx % 4_999 == 5 {
            acc.sample(obj(vec![("space", "groupnum".into()), ("case", c.name.as_str().into()), ("source", one_line(&c.src, 300).into())]));
        }
    });
    rep.absorb("bind_group_numbers", r);
    rep.cov("group_numbers", Json::Int(group_numbers(ctx.quick()).len() as i64));
    rep.cov("group_number_max", Json::Int(*group_numbers(ctx.quick()).last().unwrap() as i64));
    eprintln!("[C18] bind-group numbers ({} cases) done at {:.1}s", groups.len(), ctx.start.elapsed().as_secs_f64());

    // ---- space 2: resource sequences × pipelines
    let mut rank = 0u64;
    for sp in res_spaces(ctx.quick()) {
        rank += 1;
        let base = rank << 40;
        let total = sp.total();
        let cpu_key = format!("cpu_us {}", sp.name);
        let r = run_par(ctx, total, 64, |idx, acc| {
            acc.cur_index = base + idx;
            if !sp.keep(idx) {
                return;
            }
            let c = sp.case(idx);
            let t0 = thread_cpu_s();
            check_case(&c, acc);
            acc.add(&cpu_key, ((thread_cpu_s() - t0) * 1e6) as u64);
            if idx % 30_011 == 7 {
                acc.sample(obj(vec![("space", sp.name.into()), ("case", c.name.as_str().into()), ("source", one_line(&c.src, 300).into())]));
            }
        });
        rep.cov(&format!("alphabet_{}", sp.name), Json::Int(sp.alpha.len() as i64));
        rep.absorb(sp.name, r);
        let kept = (0..total).filter(|i| sp.keep(*i)).count();
        if sp.thin > 1 {
            // the evidence names the number of cases that were run, and the size of the space they were thinned from
            rep.cov(&format!("space_{}", sp.name), Json::Int(kept as i64));
            rep.cov(&format!("space_{}_before_thinning_by_digit_sum_mod_{}", sp.name, sp.thin), Json::Int(total as i64));
        }
        eprintln!("[C18] {} ({} of {} cases) done at {:.1}s", sp.name, kept, total, ctx.start.elapsed().as_secs_f64());
    }

    // ---- space 2b: the contents of declarations that have a body
    let bodies = body_cases(ctx.quick());
    let r = run_par(ctx, bodies.len() as u64, 32, |idx, acc| {
        acc.cur_index = (5u64 << 40) + idx;
        let c = bodies[idx as usize].case();
        let t0 = thread_cpu_s();
        check_case(&c, acc);
        acc.add("cpu_us body", ((thread_cpu_s() - t0) * 1e6) as u64);
        if idx % 997 == 5 {
            acc.sample(obj(vec![("space", "body".into()), ("case", c.name.as_str().into()), ("source", one_line(&c.src, 300).into())]));
        }
    });
    rep.absorb("declaration_bodies", r);
    rep.cov("body_member_alphabet", Json::Int(member_alphabet(ctx.quick()).len() as i64));
    rep.cov("body_member_lists", Json::Int(member_lists(ctx.quick()).len() as i64));
    eprintln!("[C18] declaration bodies ({} cases) done at {:.1}s", bodies.len(), ctx.start.elapsed().as_secs_f64());

    // ---- space 3: reserved words as names (thorough: also in no-pipeline mode)
    let words = reserved_words();
    let name_modes = ctx.pick(1u64, 2u64);
    let r = run_par(ctx, words.len() as u64 * N_NAME_FORMS * name_modes, 16, |idx, acc| {
        acc.cur_index = (6u64 << 40) + idx;
        let w = &words[(idx / (N_NAME_FORMS * name_modes)) as usize];
        let form = (idx / name_modes) % N_NAME_FORMS;
        let mode = if idx % name_modes == 0 { Mode::All } else { Mode::NoPipeline };
        let c = Case { name: format!("reserved-word|form{}|{}", form, w), src: named_program(w, form), mode, validate: false };
        let t0 = thread_cpu_s();
        check_case(&c, acc);
        acc.add("cpu_us reserved_words", ((thread_cpu_s() - t0) * 1e6) as u64);
    });
    rep.absorb("reserved_words_as_names", r);
    rep.cov("reserved_words", Json::Int(words.len() as i64));

    // ---- space 4: single-token mutants of the core programs
    let bases: Vec<(String, String)> = fixed.iter().filter(|(n, s)| !s.contains("RSSL_TARGET_") && !n.starts_with("lexer-") && !n.starts_with("preprocessor-error-missing")).cloned().collect();
    let ms = MutantSpace::new(bases);
    let stride = ctx.pick(25u64, 1u64);
    // thorough: every mutant in both modes with layout validation on and off
    let per = ctx.pick(1u64, MUT_VARIANTS);
    let total = (ms.total / stride) * per;
    let r = run_par(ctx, total, 256, |idx, acc| {
        acc.cur_index = (7u64 << 40) + idx;
        let m = (idx / per) * stride;
        let (fam, src) = ms.get(m);
        let (mode, validate) = if per == 1 { mut_variant(m) } else { mut_variant(idx % per) };
        let c = Case { name: fam, src, mode, validate };
        let t0 = thread_cpu_s();
        check_case(&c, acc);
        acc.add("cpu_us mutants", ((thread_cpu_s() - t0) * 1e6) as u64);
        if idx % 50_021 == 13 {
            acc.sample(obj(vec![("space", "mutants".into()), ("base", c.name.as_str().into()), ("source", one_line(&c.src, 200).into())]));
        }
    });
    rep.cov("mutant_base_programs", Json::Int(ms.programs.len() as i64));
    rep.cov("mutants_total", Json::Int(ms.total as i64));
    rep.absorb("mutants", r);
    if ctx.quick() {
        rep.caps_hit.push("quick tier: every 25th single-token mutant with one (mode, validation) combination each (25 is coprime to the 57 mutations per token, so every mutation kind is applied at every 25th position); one declaration in all-pipelines mode only and thinned to the cases with an even digit sum (every (shape, usage, declaration) with one of the two default bind groups); three declarations thinned to the cases whose digit sum is a multiple of 3 (every ordered pair of declarations at every two positions, with a third of the alphabet at the remaining position); reserved words in all-pipelines mode only; declaration bodies: member lists of at most 2 members over 5 member types, at most one neighbour, compute shape; two declarations over the class alphabet with 2 group annotations, direct usage and DefaultBindGroup 0, thinned to the cases with an even digit sum (every ordered pair of declarations with 2 or 3 of the 5 pipeline shapes); two declarations over the full alphabet without bindless arrays and attribute group annotations and with the compute shape only; three declarations over the 13 allocator classes × 2 group annotations, no arrays, with the compute shape; bind-group numbers 0..=8 in annotations and DefaultBindGroup with the compute shape, direct usage, no arrays, 3 of the 6 contexts and the DefaultBindGroup dimension for the 10 allocator-class kinds only — the rest is explored in the thorough tier".into());
    }

    rep.assumptions = NORMALISER_DESCRIPTION.iter().map(|s| s.to_string()).collect();
    rep.assumptions.extend([
        "a diagnostic is a back-end (exporter) diagnostic iff it starts with `error: hlsl generate:`, `error: hlsl format:`, `error: metal generate:`, `error: metal format:` or `error: interpolator required by pixel stage has not been provided:`; every other Err of compile is a front-end rejection and must be byte-identical in all four configurations".to_string(),
        "Metal exporter rejections and panics are outside the property (counted per class); when all three HLSL flavours are rejected by the HLSL exporter nothing further is related".to_string(),
        "violation classes of the binding comparison: `missing-on-first` / `missing-on-second` / `other-binding` when one configuration does not report a binding at all (names compared without a generated `_<digits>` suffix), `name` when the same bindings are reported under differently generated names, then `kind`, then `count`".to_string(),
        "binding sets: (name, descriptor kind, count) as a multiset over all groups; static samplers removed on every side; BufferAddress/RwBufferAddress compared as the ByteBuffer/RwByteBuffer they fall back to (ir/src/export.rs); group index, slot, is_used and is_bindless are not part of the property (group differences are counted)".to_string(),
        "stage comparison ignores entry point names (Metal uses fixed names)".to_string(),
        "programs mentioning RSSL_TARGET_ are excluded; the 8 repository inputs that do are explored in their two macro-resolved views instead".to_string(),
        "programs are single files without includes and without API-level defines".to_string(),
    ]);
    finish(ctx, rep)
}

pub fn replay(ctx: &Ctx, body: &str) -> i32 {
    // `kind: generated` + `space: <name>` + `index: <n>`: rebuild a case of a resource space from its index and print it
    if body.starts_with("kind: generated") {
        let get = |k: &str| body.lines().find_map(|l| l.strip_prefix(k)).map(|v| v.trim().to_string());
        let (Some(space), Some(index)) = (get("space: "), get("index: ").and_then(|v| v.parse::<u64>().ok())) else {
            eprintln!("machinery error: bad replay file");
            return 2;
        };
        let quick = get("tier: ").map(|t| t != "thorough").unwrap_or(true);
        let Some(sp) = res_spaces(quick).into_iter().find(|s| s.name == space) else {
            eprintln!("machinery error: unknown space {}", space);
            return 2;
        };
        let c = sp.case(index % sp.total().max(1));
        println!("{}", c.replay_text());
        let mut acc = Acc::default();
        check_case(&c, &mut acc);
        for (k, n) in &acc.counters {
            println!("  {}: {}", k, n);
        }
        return finish_replay(ctx, &acc);
    }
    let Some(c) = Case::from_replay(body) else {
        eprintln!("machinery error: bad replay file");
        return 2;
    };
    let mut acc = Acc::default();
    check_case(&c, &mut acc);
    for (k, n) in &acc.counters {
        println!("  {}: {}", k, n);
    }
    finish_replay(ctx, &acc)
}

//! C03 — accepted programs elaborate to well-typed IR; ill-typed programs are rejected.
//!
//! Positive side: every case of the spaces below is a small program (one function, sometimes with a few case-local
//! definitions). Cases are packed ~50 per compilation unit; a unit the type checker rejects is split at the reported
//! line (or run case by case) so that every case gets its own verdict. Every accepted case is handed to
//! `ir_typecheck` (an independent type checker for `ir::Module`). Cases the type checker rejects are outside the
//! positive side and are counted by error class.
//!
//! Negative side: accepted base programs x typed mutations (one injected violation each, at every skeleton position);
//! oracle: `type_check` returns `Err`.
//!
//! Two further spaces run first (both added after seeded changes were missed): `modifier_bases`/`modifier_mutants`
//! (writes and out-arguments whose target type carries a modifier besides `const`, crossed with every storage kind
//! that makes the target non-writable - including `const` that comes with a typedef name while the other modifiers are
//! written at the use site -, every type class - numeric, enum, struct, array - and every access path) and `init_list_shapes`/`init_list_operands` (brace
//! initialisers: every list shape / operand kind against a reference model of the two readings of an initialiser list).
//!
//! Signatures: `ir|...` (see ir_typecheck.rs), `illtyped-accepted|<family>|<class>`, `panic|<file>|<message>`
//! (`|<context class>` appended in the modifier space).

use crate::engine::*;
use crate::ir_typecheck as itc;
use crate::json::{Json, obj};
use std::collections::{BTreeMap, BTreeSet};
use std::sync::atomic::{AtomicBool, Ordering};

// ---------------------------------------------------------------------------------------------
// running the real type checker

enum TcOut {
    Ok(Box<rssl::ir::Module>),
    Rej { class: String, line: Option<usize>, msg: String },
    ParseErr(String),
    Panic(PanicInfo),
}

/// Signature of a panic inside the subject. The typer's debug self-check ("[computed type] != [IR type]: <expression>")
/// spells out both type names; its class is the root node of the expression, not the operand types.
fn psig(p: &PanicInfo) -> String {
    let base = itc::panic_signature(p);
    if p.message.starts_with('[') {
        if let (Some(_), Some(k)) = (p.message.find("] != ["), p.message.find("]: ")) {
            let rest = &p.message[k + 3..];
            let ident = |t: &str| -> String { t.chars().take_while(|c| c.is_ascii_alphabetic() || *c == '_').collect() };
            let mut node = ident(rest);
            if node == "IntrinsicOp" {
                node = format!("IntrinsicOp({})", ident(&rest[node.len() + 1..]));
            }
            let mut parts = base.splitn(3, '|');
            let (a, b) = (parts.next().unwrap_or("panic"), parts.next().unwrap_or("?"));
            return format!("{}|{}|type-self-check|{}", a, b, node);
        }
    }
    base
}

fn variant_name(dbg: &str) -> String {
    dbg.chars().take_while(|c| c.is_ascii_alphanumeric() || *c == '_').collect()
}

fn tc(src: &str) -> TcOut {
    use rssl::text::CompileErrorExt;
    let r = guard(|| {
        let mut sm = rssl::text::SourceManager::new();
        let toks = match rssl::preprocess::preprocess_fragment(src, rssl::text::FileName("t.rssl".into()), &mut sm) {
            Ok(t) => t,
            Err(e) => return TcOut::ParseErr(format!("{}", e.display(&sm))),
        };
        let toks = rssl::preprocess::prepare_tokens(&toks);
        let ast = match rssl::parser::parse(&toks) {
            Ok(a) => a,
            Err(e) => return TcOut::ParseErr(format!("{}", e.display(&sm))),
        };
        match rssl::typer::type_check(&ast) {
            Ok(m) => TcOut::Ok(Box::new(m)),
            Err(e) => {
                let class = variant_name(&format!("{:?}", e.0));
                let msg = format!("{}", e.display(&sm));
                let line = msg.strip_prefix("t.rssl:").and_then(|r| r.split(':').next()).and_then(|l| l.parse::<usize>().ok());
                TcOut::Rej { class, line, msg }
            }
        }
    });
    match r {
        Ok(o) => o,
        Err(p) => TcOut::Panic(p),
    }
}

// ---------------------------------------------------------------------------------------------
// prelude items and cases

pub struct Prelude {
    items: Vec<(String, String, Vec<String>)>,
    index: BTreeMap<String, usize>,
}

impl Prelude {
    fn add(&mut self, key: &str, text: &str, deps: &[&str]) {
        assert!(!text.contains('\n'));
        self.index.insert(key.to_string(), self.items.len());
        self.items.push((key.to_string(), text.to_string(), deps.iter().map(|s| s.to_string()).collect()));
    }
    fn closure(&self, key: &str, out: &mut BTreeSet<usize>) {
        let i = *self.index.get(key).unwrap_or_else(|| panic!("generator error: unknown prelude item {}", key));
        if out.insert(i) {
            for d in &self.items[i].2 {
                self.closure(d, out);
            }
        }
    }
}

const KINDS: [&str; 6] = ["bool", "int", "uint", "half", "float", "double"];
const WIDTHS: [&str; 5] = ["", "1", "2", "3", "4"];

fn all_types() -> Vec<String> {
    let mut v = Vec::new();
    for w in WIDTHS {
        for k in KINDS {
            v.push(format!("{}{}", k, w));
        }
    }
    v
}

fn build_prelude() -> Prelude {
    let mut p = Prelude { items: Vec::new(), index: BTreeMap::new() };
    p.add("S", "struct S { int m_i; float m_f; int2 m_i2; float3 m_f3; bool m_b; uint m_u; int arr[2]; };", &[]);
    p.add("T2", "struct T2 { int m_i; float m_f; int2 m_i2; float3 m_f3; bool m_b; uint m_u; int arr[2]; };", &[]);
    p.add("E", "enum E { EA, EB };", &[]);
    p.add("CB", "cbuffer CB { int cb_i; float cb_f; int3 cb_i3; float3 cb_f3; bool cb_b; uint cb_u; }", &[]);
    p.add("N", "namespace N { static float gn; static int gni; }", &[]);
    p.add("gs_f", "static float gs_f;", &[]);
    p.add("gsh_u", "groupshared uint gsh_u;", &[]);
    p.add("gsh_i", "groupshared int gsh_i;", &[]);
    p.add("mk_S", "S mk_S();", &["S"]);
    for t in all_types() {
        p.add(&format!("mk_{}", t), &format!("{} mk_{}();", t, t), &[]);
        p.add(&format!("mkc_{}", t), &format!("const {} mkc_{}();", t, t), &[]);
        p.add(&format!("fi_{}", t), &format!("void fi_{}({} p);", t, t), &[]);
        p.add(&format!("fo_{}", t), &format!("void fo_{}(out {} p);", t, t), &[]);
        p.add(&format!("fio_{}", t), &format!("void fio_{}(inout {} p);", t, t), &[]);
        p.add(&format!("gl_{}", t), &format!("static {} gl_{};", t, t), &[]);
        p.add(&format!("ge_{}", t), &format!("{} ge_{};", t, t), &[]);
    }
    p.add("mk_float4x4", "float4x4 mk_float4x4();", &[]);
    p.add("o_buf", "Buffer<float4> o_buf;", &[]);
    p.add("o_rwbuf", "RWBuffer<float4> o_rwbuf;", &[]);
    p.add("o_sb", "StructuredBuffer<S> o_sb;", &["S"]);
    p.add("o_rwsb", "RWStructuredBuffer<S> o_rwsb;", &["S"]);
    p.add("o_bab", "ByteAddressBuffer o_bab;", &[]);
    p.add("o_rwbab", "RWByteAddressBuffer o_rwbab;", &[]);
    p.add("o_tex", "Texture2D<float4> o_tex;", &[]);
    p.add("o_texf", "Texture2D<float> o_texf;", &[]);
    p.add("o_rwtex", "RWTexture2D<float4> o_rwtex;", &[]);
    p.add("o_ss", "SamplerState o_ss;", &[]);
    p.add("o_cb", "ConstantBuffer<S> o_cb;", &["S"]);
    // brace initialiser spaces
    p.add("IT", "struct IT { int q; };", &[]);
    p.add("IS2", "struct IS2 { int a; float b; };", &[]);
    p.add("IS3", "struct IS3 { IS2 s; int c[2]; };", &["IS2"]);
    p.add("i_gf", "static float i_gf;", &[]);
    p.add("i_gf2", "static float2 i_gf2;", &[]);
    p.add("i_gt", "static IT i_gt;", &["IT"]);
    p.add("i_gss", "SamplerState i_gss;", &[]);
    p
}

#[derive(Clone, Default)]
pub struct Case {
    /// one line of source; every definition in it has a name ending in `_<case index>`
    text: String,
    needs: Vec<String>,
}

/// (source, number of prelude lines)
fn assemble(pre: &Prelude, cases: &[&Case]) -> (String, usize) {
    let mut set = BTreeSet::new();
    for c in cases {
        for n in &c.needs {
            pre.closure(n, &mut set);
        }
    }
    let mut s = String::new();
    for i in &set {
        s.push_str(&pre.items[*i].1);
        s.push('\n');
    }
    for c in cases {
        debug_assert!(!c.text.contains('\n'));
        s.push_str(&c.text);
        s.push('\n');
    }
    (s, set.len())
}

fn owner_index(owner: &str) -> Option<u64> {
    let i = owner.rfind('_')?;
    let d = &owner[i + 1..];
    if d.is_empty() || !d.chars().all(|c| c.is_ascii_digit()) {
        return None;
    }
    d.parse().ok()
}

fn unit_replay(space: &str, idx: Option<u64>, src: &str) -> String {
    format!("kind: unit\nspace: {}\ncase: {}\n{}", space, idx.map(|i| i.to_string()).unwrap_or_else(|| "-".into()), src)
}

/// Run the independent IR checker over an accepted module and attribute the results to the cases of the unit.
fn check_accepted(pre: &Prelude, m: &rssl::ir::Module, cases: &[(u64, Case)], unit_src: &str, space: &str, acc: &mut Acc) {
    let items = match guard(|| itc::check_module(m)) {
        Ok(i) => i,
        Err(p) => {
            acc.violation(Violation {
                signature: format!("machinery|ir-typecheck-panicked|{}", itc::panic_signature(&p)),
                detail: format!("the independent IR checker panicked: {}", p.message),
                replay: unit_replay(space, None, unit_src),
            });
            return;
        }
    };
    let mut shapes: BTreeMap<u64, String> = BTreeMap::new();
    let mut seen: BTreeMap<&'static str, u64> = BTreeMap::new();
    let mut nodes = 0u64;
    for it in &items {
        nodes += it.nodes;
        for s in &it.seen {
            *seen.entry(s).or_insert(0) += 1;
        }
        let idx = owner_index(&it.owner).filter(|i| cases.iter().any(|(k, _)| k == i));
        if let Some(i) = idx {
            let e = shapes.entry(i).or_default();
            e.push_str(&it.shape);
            e.push('|');
        }
        for f in &it.findings {
            let replay = match idx {
                Some(i) => {
                    let c = &cases.iter().find(|(k, _)| *k == i).unwrap().1;
                    unit_replay(space, Some(i), &assemble(pre, &[c]).0)
                }
                None => unit_replay(space, None, unit_src),
            };
            acc.violation(Violation { signature: f.sig.clone(), detail: format!("[{} in {}] {}", space, it.owner, f.detail), replay });
        }
    }
    for (k, _) in cases {
        acc.count("accepted");
        acc.count(&format!("accepted|{}", space));
        match shapes.get(k) {
            Some(s) => acc.outcome(s),
            None => acc.outcome(&("no-shape", space)),
        }
    }
    acc.add("ir_nodes_checked", nodes);
    for (k, n) in seen {
        acc.add(&format!("seen|{}", k), n);
    }
}

fn single(pre: &Prelude, idx: u64, case: &Case, space: &str, acc: &mut Acc) {
    let (src, _) = assemble(pre, &[case]);
    acc.count("type_checks");
    match tc(&src) {
        TcOut::Ok(m) => check_accepted(pre, &m, &[(idx, case.clone())], &src, space, acc),
        TcOut::Rej { class, .. } => {
            acc.count("rejected");
            acc.count(&format!("rejected|{}", class));
            if space == "misc" {
                acc.count(&format!("misc_rejected|case {}|{}", idx, class));
            }
        }
        TcOut::ParseErr(msg) => {
            acc.violation(Violation {
                signature: format!("machinery|generated-case-does-not-parse|{}", space),
                detail: format!("case {} of {}: {}", idx, space, one_line(&msg, 300)),
                replay: unit_replay(space, Some(idx), &src),
            });
        }
        TcOut::Panic(p) => {
            acc.count("panicked");
            acc.violation(Violation {
                signature: psig(&p),
                detail: format!("type_check panicked ({}) on case {} of {}: {}", p.message, idx, space, one_line(&case.text, 300)),
                replay: unit_replay(space, Some(idx), &src),
            });
        }
    }
}

/// One compilation unit: every case gets its own verdict.
fn process_unit(pre: &Prelude, cases: &[(u64, Case)], space: &str, acc: &mut Acc) {
    acc.evals += cases.len() as u64;
    let mut start = 0usize;
    while start < cases.len() {
        let slice = &cases[start..];
        if slice.len() == 1 {
            single(pre, slice[0].0, &slice[0].1, space, acc);
            return;
        }
        let refs: Vec<&Case> = slice.iter().map(|c| &c.1).collect();
        let (src, plines) = assemble(pre, &refs);
        acc.count("type_checks");
        match tc(&src) {
            TcOut::Ok(m) => {
                check_accepted(pre, &m, slice, &src, space, acc);
                return;
            }
            TcOut::Rej { line: Some(l), .. } if l > plines && l - plines - 1 < slice.len() => {
                let k = l - plines - 1;
                if k > 0 {
                    let head = &slice[..k];
                    let hrefs: Vec<&Case> = head.iter().map(|c| &c.1).collect();
                    let (hsrc, _) = assemble(pre, &hrefs);
                    acc.count("type_checks");
                    match tc(&hsrc) {
                        TcOut::Ok(m) => check_accepted(pre, &m, head, &hsrc, space, acc),
                        _ => {
                            acc.count("batch_fallback_to_singles");
                            for (i, c) in head {
                                single(pre, *i, c, space, acc);
                            }
                        }
                    }
                }
                // the case the error points at gets its verdict alone (independent of the batch)
                single(pre, slice[k].0, &slice[k].1, space, acc);
                start += k + 1;
            }
            _ => {
                acc.count("batch_fallback_to_singles");
                for (i, c) in slice {
                    single(pre, *i, c, space, acc);
                }
                return;
            }
        }
    }
}

/// development aid: VERIF_C03_SPACES=a,b restricts the run to the named spaces (the run is then not exhaustive)
fn space_selected(name: &str) -> bool {
    match std::env::var("VERIF_C03_SPACES") {
        Ok(v) if !v.is_empty() => v.split(',').any(|s| s == name),
        _ => true,
    }
}

fn run_space(ctx: &Ctx, rep: &mut Report, pre: &Prelude, name: &str, total: u64, batch: u64, generate: &(dyn Fn(u64) -> Case + Sync)) {
    if !space_selected(name) {
        rep.exhaustive = false;
        rep.caps_hit.push(format!("{}: not selected by VERIF_C03_SPACES", name));
        return;
    }
    let units = total.div_ceil(batch);
    let r = run_par(ctx, units, 2, |u, acc| {
        let lo = u * batch;
        let hi = (lo + batch).min(total);
        let cases: Vec<(u64, Case)> = (lo..hi).map(|i| (i, generate(i))).collect();
        let t0 = thread_cpu_s();
        process_unit(pre, &cases, name, acc);
        acc.add(&format!("cpu_us|{}", name), ((thread_cpu_s() - t0) * 1e6) as u64);
        if u % 997 == 0 {
            acc.sample(obj(vec![("space", name.into()), ("case", (lo as i64).into()), ("text", cases[0].1.text.as_str().into())]));
        }
    });
    rep.cov(&format!("cases_{}", name), Json::Int(total as i64));
    rep.absorb(name, r);
}

// ---------------------------------------------------------------------------------------------
// operand leaves

#[derive(Clone, Default)]
struct Leaf {
    expr: String,
    params: Vec<String>,
    needs: Vec<String>,
}

fn leaf(expr: &str, params: &[&str], needs: &[&str]) -> Leaf {
    Leaf { expr: expr.to_string(), params: params.iter().map(|s| s.to_string()).collect(), needs: needs.iter().map(|s| s.to_string()).collect() }
}

/// Operand types of the depth-1 spaces: 6 typed scalar kinds x widths x {l-value, const l-value, r-value, const r-value}
/// plus the two literal kinds (r-values only; a variable of a literal type cannot be written in source).
struct Operands {
    widths: Vec<&'static str>,
    lits: Vec<&'static str>,
}

impl Operands {
    fn new(quick: bool) -> Operands {
        if quick {
            Operands { widths: vec!["", "1", "3"], lits: vec!["7", "1.5", "7.xxx", "(1.5).xxx"] }
        } else {
            Operands { widths: WIDTHS.to_vec(), lits: vec!["7", "1.5", "7.xx", "(1.5).xx", "7.xxx", "(1.5).xxx", "7.xxxx", "(1.5).xxxx"] }
        }
    }
    fn len(&self) -> u64 {
        (6 * self.widths.len() * 4 + self.lits.len()) as u64
    }
    fn types(&self) -> Vec<String> {
        let mut v = Vec::new();
        for w in &self.widths {
            for k in KINDS {
                v.push(format!("{}{}", k, w));
            }
        }
        v
    }
    /// simplest first: category fastest, then kind, then width; literals last
    fn get(&self, i: u64, name: &str) -> Leaf {
        let typed = (6 * self.widths.len() * 4) as u64;
        if i >= typed {
            return leaf(self.lits[(i - typed) as usize], &[], &[]);
        }
        let cat = i % 4;
        let k = (i / 4) % 6;
        let w = (i / 24) as usize;
        let t = format!("{}{}", KINDS[k as usize], self.widths[w]);
        match cat {
            0 => leaf(name, &[&format!("{} {}", t, name)], &[]),
            1 => leaf(name, &[&format!("const {} {}", t, name)], &[]),
            2 => leaf(&format!("mk_{}()", t), &[], &[&format!("mk_{}", t)]),
            _ => leaf(&format!("mkc_{}()", t), &[], &[&format!("mkc_{}", t)]),
        }
    }
}

/// class alphabet of leaves for the depth-2 and call spaces (every id kind of the IR appears)
fn class_leaves(quick: bool) -> Vec<Leaf> {
    let mut v = vec![
        leaf("ai", &["int ai"], &[]),
        leaf("af", &["float af"], &[]),
        leaf("ab", &["bool ab"], &[]),
        leaf("ai3", &["int3 ai3"], &[]),
        leaf("7", &[], &[]),
        leaf("mk_float3()", &[], &["mk_float3"]),
    ];
    if !quick {
        v.extend(vec![
            leaf("ci", &["const int ci"], &[]),
            leaf("1.5", &[], &[]),
            leaf("au", &["uint au"], &[]),
            leaf("af3", &["float3 af3"], &[]),
            leaf("cb_i", &[], &["CB"]),
            leaf("sv.m_f", &["S sv"], &["S"]),
            leaf("arr[1]", &["int arr[2]"], &[]),
            leaf("EA", &[], &["E"]),
            leaf("af3.xy", &["float3 af3"], &[]),
            leaf("af.xxx", &["float af"], &[]),
            leaf("sv", &["S sv"], &["S"]),
            leaf("N::gn", &[], &["N"]),
        ]);
    }
    v
}

/// a function `ret c_<idx>(params) { body }` from leaves
fn func(idx: u64, ret: &str, leaves: &[&Leaf], extra_params: &[&str], extra_needs: &[&str], body: &str, before: &str) -> Case {
    let mut params: Vec<String> = Vec::new();
    let mut needs: Vec<String> = Vec::new();
    for l in leaves {
        for p in &l.params {
            if !params.contains(p) {
                params.push(p.clone());
            }
        }
        for n in &l.needs {
            if !needs.contains(n) {
                needs.push(n.clone());
            }
        }
    }
    for p in extra_params {
        if !params.iter().any(|q| q == p) {
            params.push(p.to_string());
        }
    }
    for n in extra_needs {
        if !needs.iter().any(|q| q == n) {
            needs.push(n.to_string());
        }
    }
    Case { text: format!("{}{} c_{}({}) {{ {} }}", before, ret, idx, params.join(", "), body), needs }
}

const VALUE_OPS: [&str; 18] = ["+", "-", "*", "/", "%", "<<", ">>", "&", "|", "^", "&&", "||", "<", "<=", ">", ">=", "==", "!="];
const ASSIGN_OPS: [&str; 11] = ["=", "+=", "-=", "*=", "/=", "%=", "<<=", ">>=", "&=", "|=", "^="];

fn bin_ops() -> Vec<&'static str> {
    let mut v: Vec<&'static str> = VALUE_OPS.to_vec();
    v.extend(ASSIGN_OPS);
    v.push(",");
    v
}

/// unary / postfix / statement-condition forms applied to one operand `{}`; `ix` is an int parameter
const UNARY_FORMS: [&str; 30] = [
    "{};", "++{};", "--{};", "{}++;", "{}--;", "+{};", "-{};", "!{};", "~{};", "{}.x;", "{}.xy;", "{}.xx;", "{}.zyx;", "{}.xyzw;", "{}.wwww;", "{}.r;", "{}[0];", "{}[1];", "{}[3];", "{}[ix];", "sizeof({});",
    "({});", "({}, {});", "if ({}) { }", "if ({}) { } else { }", "while ({}) { break; }", "for (; {}; ) { break; }", "do { } while ({});", "switch ({}) { case 0: break; default: break; }", "{}.x = {}.x;",
];

/// conversion contexts: `{D}` destination type, `{X}` source expression
const CONV_FORMS: [(&str, &str, &str); 11] = [
    ("void", "{D} v = {X};", ""),
    ("void", "const {D} v = {X};", ""),
    ("{D}", "return {X};", ""),
    ("void", "({D}){X};", ""),
    ("void", "{D}({X});", ""),
    ("void", "fi_{D}({X});", "fi_{D}"),
    ("void", "fo_{D}({X});", "fo_{D}"),
    ("void", "fio_{D}({X});", "fio_{D}"),
    ("void", "{D} v[2] = { {X}, {X} };", ""),
    ("void", "static {D} v = {X};", ""),
    ("const {D}", "return {X};", ""),
];

fn gen_bin1(ops: &Operands, idx: u64) -> Case {
    let n = ops.len();
    let nops = bin_ops().len() as u64;
    let op = bin_ops()[(idx % nops) as usize];
    let b = ops.get((idx / nops) % n, "b");
    let a = ops.get(idx / nops / n, "a");
    func(idx, "void", &[&a, &b], &[], &[], &format!("{} {} {};", a.expr, op, b.expr), "")
}

fn gen_un1(ops: &Operands, idx: u64) -> Case {
    let nf = UNARY_FORMS.len() as u64;
    let f = UNARY_FORMS[(idx % nf) as usize];
    let mut a = ops.get(idx / nf, "a");
    if a.expr.chars().all(|c| c.is_ascii_digit()) {
        // `7.r` does not lex as a member access
        a.expr = format!("({})", a.expr);
    }
    let extra: Vec<&str> = if f.contains("ix") { vec!["int ix"] } else { vec![] };
    func(idx, "void", &[&a], &extra, &[], &f.replace("{}", &a.expr), "")
}

const TERN_CONDS: [(&str, &str, &str); 7] = [("c", "bool c", ""), ("c", "int c", ""), ("c", "float c", ""), ("true", "", ""), ("1", "", ""), ("c", "bool3 c", ""), ("mk_uint()", "", "mk_uint")];

fn gen_tern1(ops: &Operands, nconds: u64, idx: u64) -> Case {
    let n = ops.len();
    let (ce, cp, cn) = TERN_CONDS[(idx % nconds) as usize];
    let b = ops.get((idx / nconds) % n, "b");
    let a = ops.get(idx / nconds / n, "a");
    let c = leaf(ce, &if cp.is_empty() { vec![] } else { vec![cp] }, &if cn.is_empty() { vec![] } else { vec![cn] });
    func(idx, "void", &[&c, &a, &b], &[], &[], &format!("{} ? {} : {};", c.expr, a.expr, b.expr), "")
}

fn gen_conv(ops: &Operands, dsts: &[String], idx: u64) -> Case {
    let nf = CONV_FORMS.len() as u64;
    let (ret, body, need) = CONV_FORMS[(idx % nf) as usize];
    let nd = dsts.len() as u64;
    let d = &dsts[((idx / nf) % nd) as usize];
    let a = ops.get(idx / nf / nd, "a");
    let needs: Vec<String> = if need.is_empty() { vec![] } else { vec![need.replace("{D}", d)] };
    let nrefs: Vec<&str> = needs.iter().map(|s| s.as_str()).collect();
    func(idx, &ret.replace("{D}", d), &[&a], &[], &nrefs, &body.replace("{D}", d).replace("{X}", &a.expr), "")
}

/// global initialisers, default arguments and attribute expressions: sources that exist at global scope
const GLOBAL_FORMS: [&str; 5] = [
    "static {D} g_{I} = {X};",
    "static const {D} g_{I} = {X};",
    "void c_{I}({D} p = {X}) { }",
    "void c_{I}({D} p = {X}) { } void d_{I}() { c_{I}(); }",
    "[numthreads({X}, 1, 1)] void c_{I}() { }",
];

fn global_leaf(types: &[String], lits: &[&str], i: u64) -> Leaf {
    let typed = (types.len() * 4) as u64;
    if i >= typed {
        return leaf(lits[(i - typed) as usize], &[], &[]);
    }
    let t = &types[(i / 4) as usize];
    match i % 4 {
        0 => leaf(&format!("gl_{}", t), &[], &[&format!("gl_{}", t)]),
        1 => leaf(&format!("ge_{}", t), &[], &[&format!("ge_{}", t)]),
        2 => leaf(&format!("mk_{}()", t), &[], &[&format!("mk_{}", t)]),
        _ => leaf(&format!("mkc_{}()", t), &[], &[&format!("mkc_{}", t)]),
    }
}

fn gen_ginit(ops: &Operands, dsts: &[String], idx: u64) -> Case {
    let nf = GLOBAL_FORMS.len() as u64;
    let f = GLOBAL_FORMS[(idx % nf) as usize];
    let nd = dsts.len() as u64;
    let d = &dsts[((idx / nf) % nd) as usize];
    let types = ops.types();
    let x = global_leaf(&types, &ops.lits, idx / nf / nd);
    Case { text: f.replace("{D}", d).replace("{X}", &x.expr).replace("{I}", &idx.to_string()), needs: x.needs.clone() }
}

/// multi-slot numeric constructors: all slot-arity sequences with at most 4 slots and at most 5 elements in total
struct CtorSpace {
    seqs: Vec<Vec<u32>>, // arity class per slot: 0 scalar, 1 vector1, 2,3,4 vectors
    kinds: Vec<&'static str>,
    targets: Vec<String>,
}

impl CtorSpace {
    fn new(quick: bool) -> CtorSpace {
        let mut seqs: Vec<Vec<u32>> = Vec::new();
        fn rec(cur: &mut Vec<u32>, out: &mut Vec<Vec<u32>>) {
            let total: u32 = cur.iter().map(|a| (*a).max(1)).sum();
            if !cur.is_empty() && total <= 5 {
                out.push(cur.clone());
            }
            if cur.len() == 4 || total >= 5 {
                return;
            }
            for a in 0..5 {
                cur.push(a);
                rec(cur, out);
                cur.pop();
            }
        }
        rec(&mut Vec::new(), &mut seqs);
        seqs.sort_by_key(|s| (s.len(), s.clone()));
        let kinds: Vec<&'static str> = if quick { vec!["int", "float", "bool", "lit"] } else { vec!["bool", "int", "uint", "half", "float", "double", "lit", "flit"] };
        let tk: Vec<&str> = if quick { vec!["int", "float", "bool"] } else { KINDS.to_vec() };
        let mut targets = Vec::new();
        for w in ["2", "3", "4"] {
            for k in &tk {
                targets.push(format!("{}{}", k, w));
            }
        }
        targets.push("float2x2".to_string());
        if !quick {
            targets.push("int2x2".to_string());
            targets.push("float".to_string());
            targets.push("float1".to_string());
        }
        CtorSpace { seqs, kinds, targets }
    }
    fn len(&self) -> u64 {
        (self.seqs.len() * self.kinds.len() * self.kinds.len() * self.targets.len()) as u64
    }
    fn slot(kind: &str, arity: u32, j: usize) -> Leaf {
        let sw = ["", ".x", ".xx", ".xxx", ".xxxx"];
        match kind {
            "lit" => leaf(&format!("{}{}", 7 + j, if arity == 0 { "" } else { sw[arity as usize] }), &[], &[]),
            "flit" => leaf(&if arity == 0 { "1.5".to_string() } else { format!("(1.5){}", sw[arity as usize]) }, &[], &[]),
            k => {
                let t = format!("{}{}", k, if arity == 0 { "".to_string() } else { arity.to_string() });
                leaf(&format!("s{}", j), &[&format!("{} s{}", t, j)], &[])
            }
        }
    }
    fn get(&self, idx: u64) -> Case {
        let nk = self.kinds.len() as u64;
        let nt = self.targets.len() as u64;
        let k2 = self.kinds[(idx % nk) as usize];
        let k1 = self.kinds[((idx / nk) % nk) as usize];
        let t = &self.targets[((idx / nk / nk) % nt) as usize];
        let seq = &self.seqs[(idx / nk / nk / nt) as usize];
        let slots: Vec<Leaf> = seq.iter().enumerate().map(|(j, a)| Self::slot(if j == 0 { k1 } else { k2 }, *a, j)).collect();
        let refs: Vec<&Leaf> = slots.iter().collect();
        let args: Vec<&str> = slots.iter().map(|s| s.expr.as_str()).collect();
        func(idx, "void", &refs, &[], &[], &format!("{}({});", t, args.join(", ")), "")
    }
}

// ---------------------------------------------------------------------------------------------
// depth 2 over the class alphabet

const BIN_CLASSES: [&str; 12] = ["+", "%", "<<", "&", "&&", "<", "==", "=", "+=", "&=", "<<=", ","];
/// (prefix, suffix) around the operand
const UN_CLASSES: [(&str, &str); 12] = [("-", ""), ("!", ""), ("~", ""), ("++", ""), ("", "++"), ("(float)", ""), ("(int3)", ""), ("", ".x"), ("", ".xy"), ("float3(", ")"), ("abs(", ")"), ("", "[1]")];

struct D2 {
    leaves: Vec<Leaf>,
}

impl D2 {
    fn len(&self) -> u64 {
        let l = self.leaves.len() as u64;
        let (b, u) = (BIN_CLASSES.len() as u64, UN_CLASSES.len() as u64);
        2 * b * b * l * l * l + u * b * l * l + 2 * b * u * l * l + u * u * l + 2 * b * l * l * l
    }
    fn get(&self, idx: u64) -> Case {
        let l = self.leaves.len() as u64;
        let (b, u) = (BIN_CLASSES.len() as u64, UN_CLASSES.len() as u64);
        let lf = |i: u64| &self.leaves[i as usize];
        let mut i = idx;
        let n_a = 2 * b * b * l * l * l;
        if i < n_a {
            // (x op1 y) op2 z   |   x op1 (y op2 z)
            let shape = i % 2;
            i /= 2;
            let z = lf(i % l);
            i /= l;
            let y = lf(i % l);
            i /= l;
            let x = lf(i % l);
            i /= l;
            let o2 = BIN_CLASSES[(i % b) as usize];
            let o1 = BIN_CLASSES[(i / b) as usize];
            let body = if shape == 0 { format!("({} {} {}) {} {};", x.expr, o1, y.expr, o2, z.expr) } else { format!("{} {} ({} {} {});", x.expr, o1, y.expr, o2, z.expr) };
            return func(idx, "void", &[x, y, z], &[], &[], &body, "");
        }
        i -= n_a;
        let n_c = u * b * l * l;
        if i < n_c {
            let y = lf(i % l);
            i /= l;
            let x = lf(i % l);
            i /= l;
            let o = BIN_CLASSES[(i % b) as usize];
            let (p, s) = UN_CLASSES[(i / b) as usize];
            return func(idx, "void", &[x, y], &[], &[], &format!("{}({} {} {}){};", p, x.expr, o, y.expr, s), "");
        }
        i -= n_c;
        let n_d = 2 * b * u * l * l;
        if i < n_d {
            let side = i % 2;
            i /= 2;
            let y = lf(i % l);
            i /= l;
            let x = lf(i % l);
            i /= l;
            let (p, s) = UN_CLASSES[(i % u) as usize];
            let o = BIN_CLASSES[(i / u) as usize];
            let body = if side == 0 { format!("({}{}{}) {} {};", p, x.expr, s, o, y.expr) } else { format!("{} {} ({}{}{});", x.expr, o, p, y.expr, s) };
            return func(idx, "void", &[x, y], &[], &[], &body, "");
        }
        i -= n_d;
        let n_e = u * u * l;
        if i < n_e {
            let x = lf(i % l);
            i /= l;
            let (p2, s2) = UN_CLASSES[(i % u) as usize];
            let (p1, s1) = UN_CLASSES[(i / u) as usize];
            return func(idx, "void", &[x], &[], &[], &format!("{}({}{}{}){};", p1, p2, x.expr, s2, s1), "");
        }
        i -= n_e;
        // ab ? (x op y) : z   |   (ab ? x : y) op z
        let shape = i % 2;
        i /= 2;
        let z = lf(i % l);
        i /= l;
        let y = lf(i % l);
        i /= l;
        let x = lf(i % l);
        i /= l;
        let o = BIN_CLASSES[(i % b) as usize];
        let body = if shape == 0 { format!("ab ? ({} {} {}) : {};", x.expr, o, y.expr, z.expr) } else { format!("(ab ? {} : {}) {} {};", x.expr, y.expr, o, z.expr) };
        func(idx, "void", &[x, y, z], &["bool ab"], &[], &body, "")
    }
}

// ---------------------------------------------------------------------------------------------
// call shapes

/// (text before the function with `{I}` = case index, body with `{X}` `{Y}` `{Z}`, extra params, needs, number of operands)
struct CallShape {
    before: String,
    body: String,
    params: Vec<&'static str>,
    needs: Vec<&'static str>,
    arity: u32,
    /// operands drawn from the full depth-1 operand set (true) or from the class alphabet
    full: bool,
}

fn cs(before: &str, body: &str, params: &[&'static str], needs: &[&'static str], arity: u32, full: bool) -> CallShape {
    CallShape { before: before.to_string(), body: body.to_string(), params: params.to_vec(), needs: needs.to_vec(), arity, full }
}

fn call_shapes(quick: bool) -> Vec<CallShape> {
    let mut v = Vec::new();
    // overload sets over a class of parameter types
    let ct: Vec<&str> = if quick { vec!["int", "float", "bool", "float3", "S"] } else { vec!["bool", "int", "uint", "half", "float", "double", "int3", "float3", "float4", "S"] };
    for i in 0..ct.len() {
        for j in i + 1..ct.len() {
            let needs: &[&'static str] = if ct[i] == "S" || ct[j] == "S" { &["S"] } else { &[] };
            v.push(cs(&format!("void o_{{I}}({} p) {{ }} void o_{{I}}({} p) {{ }} ", ct[i], ct[j]), "o_{I}({X});", &[], needs, 1, true));
            v.push(cs(&format!("int o_{{I}}({a} p, {b} q) {{ return 1; }} float o_{{I}}({b} p, {a} q) {{ return 2; }} ", a = ct[i], b = ct[j]), "o_{I}({X}, {Y});", &[], needs, 2, false));
        }
    }
    // default parameters
    let d = "void d_{I}(int a, float b = 1.5, int3 c = int3(1, 2, 3)) { } ";
    v.push(cs(d, "d_{I}({X});", &[], &[], 1, true));
    v.push(cs(d, "d_{I}({X}, {Y});", &[], &[], 2, false));
    v.push(cs(d, "d_{I}({X}, {Y}, {Z});", &[], &[], 3, false));
    // templates (every instantiation body is type checked)
    v.push(cs("template<typename Q> Q t_{I}(Q a) { return a; } ", "t_{I}({X});", &[], &[], 1, true));
    v.push(cs("template<typename Q> Q t_{I}(Q a) { Q b = a; b = a; return b; } ", "t_{I}({X});", &[], &[], 1, true));
    for t in ["int", "float", "bool", "uint", "half", "double", "int3", "float3", "float4"] {
        v.push(cs("template<typename Q> Q t_{I}(Q a) { return a; } ", &format!("t_{{I}}<{}>({{X}});", t), &[], &[], 1, true));
    }
    v.push(cs("template<typename Q> Q t_{I}(Q a, Q b) { return a + b; } ", "t_{I}({X}, {Y});", &[], &[], 2, false));
    v.push(cs("template<typename Q, typename R> R t_{I}(Q a, R b) { return a * b; } ", "t_{I}({X}, {Y});", &[], &[], 2, false));
    v.push(cs("template<typename Q> void t_{I}(out Q a, Q b) { a = b; } ", "t_{I}({X}, {Y});", &[], &[], 2, false));
    v.push(cs("template<typename Q> vector<Q, 3> t_{I}(vector<Q, 3> a) { return a; } ", "t_{I}({X});", &[], &[], 1, true));
    // methods (external and internal calls, out parameter, implicit member access)
    let m = "struct M_{I} { int v; float w; int get_{I}() { return v; } void set_{I}(int x) { v = x; } float mix_{I}(float a, int b) { set_{I}(b); return a + get_{I}() + w; } void outp_{I}(out float o) { o = w; } template<typename Q> Q tm_{I}(Q q) { return q + v; } }; ";
    v.push(cs(m, "M_{I} m; m.set_{I}({X});", &[], &[], 1, true));
    v.push(cs(m, "M_{I} m; m.outp_{I}({X});", &[], &[], 1, true));
    v.push(cs(m, "M_{I} m; m.tm_{I}({X});", &[], &[], 1, true));
    v.push(cs(m, "M_{I} m; m.mix_{I}({X}, {Y});", &[], &[], 2, false));
    v.push(cs(m, "M_{I} m; m.get_{I}() + {X};", &[], &[], 1, true));
    v.push(cs(m, "M_{I} m; m.v = {X}; m.w += {X};", &[], &[], 1, true));
    // intrinsic functions: a representative per family
    for f in ["abs", "sin", "saturate", "floor", "frac", "sqrt", "exp2", "log2", "rcp", "length", "normalize", "all", "any", "countbits", "reversebits", "firstbithigh", "asuint", "asint", "asfloat", "f16tof32", "f32tof16", "isnan", "sign", "ddx", "WaveReadLaneFirst", "WaveActiveSum", "WaveActiveAllEqual", "NonUniformResourceIndex", "transpose", "determinant", "QuadReadAcrossX"] {
        v.push(cs("", &format!("{}({{X}});", f), &[], &[], 1, true));
    }
    for f in ["min", "max", "pow", "dot", "cross", "distance", "atan2", "fmod", "step", "reflect", "and", "or", "WaveReadLaneAt", "modf", "asdouble", "mul"] {
        v.push(cs("", &format!("{}({{X}}, {{Y}});", f), &[], &[], 2, false));
    }
    for f in ["clamp", "lerp", "smoothstep", "select", "refract", "sincos", "InterlockedAdd"] {
        v.push(cs("", &format!("{}({{X}}, {{Y}}, {{Z}});", f), &[], &[], 3, false));
    }
    v.push(cs("", "InterlockedAdd(gsh_u, {X}, {Y});", &[], &["gsh_u"], 2, false));
    v.push(cs("", "mul(mk_float4x4(), {X});", &[], &["mk_float4x4"], 1, true));
    // methods and subscripts of built-in objects
    for (body, needs) in [
        ("o_buf.Load({X});", vec!["o_buf"]),
        ("o_buf[{X}];", vec!["o_buf"]),
        ("o_rwbuf[{X}] = mk_float4();", vec!["o_rwbuf", "mk_float4"]),
        ("o_rwbuf[1] = {X};", vec!["o_rwbuf"]),
        ("o_sb[{X}].m_f;", vec!["o_sb"]),
        ("o_rwsb[{X}].m_i = 1;", vec!["o_rwsb"]),
        ("o_rwsb[1].m_f = {X};", vec!["o_rwsb"]),
        ("o_rwsb[1].m_f3 += {X};", vec!["o_rwsb"]),
        ("o_bab.Load({X});", vec!["o_bab"]),
        ("o_bab.Load4({X});", vec!["o_bab"]),
        ("o_bab.Load<float3>({X});", vec!["o_bab"]),
        ("o_rwbab.Store({X}, 1u);", vec!["o_rwbab"]),
        ("o_rwbab.Store(0, {X});", vec!["o_rwbab"]),
        ("o_rwbab.InterlockedAdd(0, 1, {X});", vec!["o_rwbab"]),
        ("o_tex.Sample(o_ss, {X});", vec!["o_tex", "o_ss"]),
        ("o_tex.SampleLevel(o_ss, {X}, 0);", vec!["o_tex", "o_ss"]),
        ("o_tex.Load({X});", vec!["o_tex"]),
        ("o_tex[{X}];", vec!["o_tex"]),
        ("o_texf[{X}];", vec!["o_texf"]),
        ("o_tex.mips[0][{X}];", vec!["o_tex"]),
        ("o_rwtex[{X}] = mk_float4();", vec!["o_rwtex", "mk_float4"]),
        ("o_rwtex[uint2(0, 0)] = {X};", vec!["o_rwtex"]),
        ("o_rwtex[uint2(0, 0)].x = {X};", vec!["o_rwtex"]),
        ("uint w; o_tex.GetDimensions({X}, w);", vec!["o_tex"]),
        ("o_cb.m_f + {X};", vec!["o_cb"]),
    ] {
        let needs: Vec<&'static str> = needs;
        v.push(cs("", body, &[], &needs, 1, true));
    }
    v
}

struct Calls {
    shapes: Vec<CallShape>,
    /// first case index of every shape
    offsets: Vec<u64>,
    total: u64,
    ops: Operands,
    cl: Vec<Leaf>,
}

impl Calls {
    fn new(quick: bool) -> Calls {
        let shapes = call_shapes(quick);
        let ops = Operands::new(quick);
        let cl = class_leaves(quick);
        let mut offsets = Vec::new();
        let mut total = 0u64;
        for s in &shapes {
            offsets.push(total);
            let n = if s.full { ops.len() } else { cl.len() as u64 };
            total += n.pow(s.arity);
        }
        Calls { shapes, offsets, total, ops, cl }
    }
    fn get(&self, idx: u64) -> Case {
        let k = match self.offsets.binary_search(&idx) {
            Ok(k) => k,
            Err(k) => k - 1,
        };
        let s = &self.shapes[k];
        let mut i = idx - self.offsets[k];
        let n = if s.full { self.ops.len() } else { self.cl.len() as u64 };
        let names = ["a", "b", "c"];
        let mut leaves: Vec<Leaf> = Vec::new();
        for j in 0..s.arity as usize {
            let d = i % n;
            i /= n;
            leaves.push(if s.full { self.ops.get(d, names[j]) } else { self.cl[d as usize].clone() });
        }
        let is = idx.to_string();
        let mut body = s.body.replace("{I}", &is);
        for (j, ph) in ["{X}", "{Y}", "{Z}"].iter().enumerate() {
            if let Some(l) = leaves.get(j) {
                body = body.replace(ph, &l.expr);
            }
        }
        let refs: Vec<&Leaf> = leaves.iter().collect();
        func(idx, "void", &refs, &s.params, &s.needs, &body, &s.before.replace("{I}", &is))
    }
}

// ---------------------------------------------------------------------------------------------
// hand-written programs: declaration forms, statements, aggregates, literals, matrices, enums, namespaces

const MISC: &[(&str, &[&str])] = &[
    ("void c_{I}() { true; false; 0; 12; 0x1F; 017; 1u; 1U; 1.0; 1.5f; 2.5h; 1e5; 3.25e-2; }", &[]),
    ("void c_{I}() { 2.0L; }", &[]),
    ("void c_{I}() { 3l; }", &[]),
    ("void c_{I}() { 2UL; }", &[]),
    ("void c_{I}() { int a[3] = { 1, 2, 3 }; float b[2][2] = { { 1, 2 }, { 3, 4 } }; a[0] = a[1] + b[1][0]; }", &[]),
    ("void c_{I}() { S s = { 1, 2.5, int2(1, 2), float3(1, 2, 3), true, 7u, { 1, 2 } }; s.m_i = s.arr[1]; s.m_f3.xy = s.m_f; }", &["S"]),
    ("void c_{I}() { S s[2]; s[1].m_f3.z = s[0].m_i; S t = s[0]; t = s[1]; }", &["S"]),
    ("void c_{I}() { float3 v = { 1, 2.0, true }; int2 w = { 1u, 2 }; float q = { 3 }; }", &[]),
    ("static const int k_{I} = 3; static float arr_{I}[k_{I}] = { 1, 2, 3 }; void c_{I}() { float x = arr_{I}[k_{I} - 1]; }", &[]),
    ("void c_{I}() { E e = EA; bool b = e == EB; int i = (int)e; E f = (E)1; int j; j = EA | EB; uint u = +e; u = ~e; b = !e; switch (e) { case EA: break; default: break; } }", &["E"]),
    ("enum G_{I} { GA_{I} = 1u, GB_{I}, GC_{I} = GA_{I} + 4 }; void c_{I}() { uint u = GB_{I}; G_{I} g = GC_{I}; }", &[]),
    ("namespace Q_{I} { static int x_{I}; int f_{I}(int a) { return a + x_{I}; } namespace R_{I} { struct P_{I} { float z; }; } } void c_{I}() { Q_{I}::R_{I}::P_{I} p; p.z = Q_{I}::f_{I}(Q_{I}::x_{I}); }", &[]),
    ("typedef float3 V_{I}; typedef V_{I} W_{I}[2]; void c_{I}() { W_{I} w; w[1] = V_{I}(1, 2, 3); V_{I} v = w[0]; }", &[]),
    ("void c_{I}() { float x = cb_f * cb_i; int3 v = cb_i3; bool b = cb_b && cb_u; float3 w = cb_f3.zyx + cb_f; }", &["CB"]),
    ("void c_{I}() { static int counter = 0; counter++; static const float k = 2; float y = k * counter; }", &[]),
    ("int c_{I}(int n) { int s = 0; for (int i = 0; i < n; ++i) { if (i % 2) continue; s += i; } while (s > 10) { s -= 3; } do { s++; } while (s < 5); return s; }", &[]),
    ("int c_{I}(int n) { switch (n) { case 0: return 1; case 1: case 2: n += 2; break; default: n = 0; } return n; }", &[]),
    ("float c_{I}(float x) { [branch] if (x > 0) { return x; } else if (x < -1) { return -x; } [unroll(4)] for (int i = 0; i < 4; i++) { x *= 2; } [loop] while (x > 100) { x /= 2; } return x; }", &[]),
    ("[numthreads(8, 8, 1)] void c_{I}(uint3 id : SV_DispatchThreadID) { uint x = id.x + id.y; }", &[]),
    ("static const uint n_{I} = 4; [numthreads(n_{I}, n_{I} * 2, 1)] void c_{I}() { }", &[]),
    ("void c_{I}() { float4x4 m; float4 v; float4 r = mul(m, v); float3x3 n; n = n * n; n = n + 1; float3 row = n[1]; float e = m._m00 + m._11 + m[2][3]; m._m00_m11 = float2(1, 2); float4x4 z = (float4x4)0; row = n._m00_m01_m02; }", &[]),
    ("void c_{I}() { row_major float2x2 a; column_major float2x2 b; float2x2 c = a; c = b; bool2x2 d = a == b; d = a < c; }", &[]),
    ("void c_{I}() { gsh_u = 1; gsh_u += 2; uint o; InterlockedAdd(gsh_u, 1u, o); InterlockedMax(gsh_u, o); GroupMemoryBarrierWithGroupSync(); }", &["gsh_u"]),
    ("struct A_{I} { int x; int sq_{I}() { return x * x; } int twice_{I}() { return sq_{I}() + sq_{I}(); } void bump_{I}(int d = 1) { x += d; } }; int c_{I}() { A_{I} a; a.x = 2; a.bump_{I}(); a.bump_{I}(3); return a.twice_{I}(); }", &[]),
    ("struct In_{I} { float2 uv; }; struct Out_{I} { In_{I} inner; float k[2]; }; float c_{I}(Out_{I} o) { o.inner.uv.x = o.k[1]; In_{I} i = o.inner; return i.uv.y; }", &[]),
    ("int f_{I}(int a); int c_{I}() { return f_{I}(1); } int f_{I}(int a) { return a; }", &[]),
    ("int c_{I}(int n) { return n <= 1 ? 1 : n * c_{I}(n - 1); }", &[]),
    ("void c_{I}() { uint a = sizeof(int); uint b = sizeof(S); uint c = sizeof(float3) * 2; int x; uint d = sizeof(x); }", &["S"]),
    ("void c_{I}() { float f = o_cb.m_f; int3 v = int3(o_cb.m_i2, o_cb.m_i); }", &["o_cb"]),
    ("template<uint N> uint tn_{I}() { return N; } template<typename Q, uint N> Q tq_{I}(Q a) { return a * N; } void c_{I}() { uint x = tn_{I}<3>(); float y = tq_{I}<float, 2>(1.5); }", &[]),
    ("template<typename Q> struct B_{I} { Q v; }; void c_{I}() { B_{I}<float> b; b.v = 1; }", &[]),
    ("void g_{I}(out float a, inout int b, in uint c, const float d) { a = d; b += c; } void c_{I}() { float x; int y = 0; float4 v; int3 w; g_{I}(x, y, 1, 2); g_{I}(v.z, w.y, y, x); }", &[]),
    ("void g_{I}(out float3 a) { a = 0; } void c_{I}() { float4 v; g_{I}(v.xyz); g_{I}(v.wzy); float3 arr[2]; g_{I}(arr[1]); S s; g_{I}(s.m_f3); }", &["S"]),
    ("void g_{I}(float a[2], out int b[2]) { b[0] = a[1]; b[1] = 0; } void c_{I}() { float p[2] = { 1, 2 }; int q[2]; g_{I}(p, q); }", &[]),
    ("S g_{I}(S a, T2 b) { a.m_i = b.m_i; return a; } void c_{I}() { S s; T2 t; s = g_{I}(s, t); g_{I}(s, t).m_f; }", &["S", "T2"]),
    ("void c_{I}() { int a = 1, b = a, c[2] = { a, b }; const float2 d = float2(a, b), e = d; }", &[]),
    ("void c_{I}() { int x = 5; x = x = 3; x += x -= 2; int y = (x, 3); y = (x = 2, x + 1); (x, y) = 4; }", &[]),
    ("void c_{I}() { int x = 1; ++x = 3; (x += 1) = 2; ++(++x); --x; x--; -x; - -x; !x; ~x; }", &[]),
    ("void c_{I}() { float4 v = 1; v.xy = v.zw; v.x = v.y; v.wzyx = v; v.rgb = v.bgr; v[0] = v[3]; v.xy += 1; v.z++; ++v.w; v.xyz *= v.xxx; }", &[]),
    ("void c_{I}() { float a = 1; float b = a.x; float3 c = a.xxx; float2 d = 2.xx; a.x = 3; float1 e = a; a = e; e.x = a; }", &[]),
    ("void c_{I}() { half h = 1; float f = h; double d = f; h = d; f = h * f; d = h + d; bool b = h; uint u = d; int i = -u; }", &[]),
    ("void c_{I}() { bool3 b = bool3(true, false, true); int3 i = b; float3 f = b + i; b = f; b = !b; bool any_ = any(b) || all(b); f = any_ ? f : i; }", &[]),
    ("void c_{I}() { if (1) { } if (1.5) { } float3 v; int i; while (i) { break; } for (;;) { break; } do { } while (false); }", &[]),
    ("void c_{I}() { S s; if (s) { } }", &["S"]),
    ("void c_{I}() { int x = (int)o_tex; }", &["o_tex"]),
    ("void v_{I}() { } void c_{I}() { int x = (int)v_{I}(); }", &[]),
    ("void c_{I}() { S s; float q = (float)s; S z = (S)0; int a[2]; float2 v = (float2)a; }", &["S"]),
    ("void c_{I}(float2 a, int4 b) { (float3)a; (float2)b; (float4)b; (float3x3)a.x; (int)b; (bool4)b; }", &[]),
    ("float c_{I}(float a, float b = 2, float c = 3.5f) { return a + b + c; }", &[]),
    ("void c_{I}(int a = 1.5, float3 b = 2, bool c = 7, uint d = true) { }", &[]),
    ("void c_{I}() { N::gn = N::gni; gs_f = N::gn; }", &["N", "gs_f"]),
    ("void c_{I}() { float2 uv; float4 c = o_tex.Sample(o_ss, uv) + o_tex.SampleLevel(o_ss, uv, 1) + o_tex.Load(int3(1, 2, 0)) + o_tex[uint2(1, 2)] + o_tex.mips[1][uint2(0, 0)]; uint w, h; o_tex.GetDimensions(w, h); o_rwtex[uint2(w, h)] = c; }", &["o_tex", "o_ss", "o_rwtex"]),
    ("void c_{I}() { uint a = o_bab.Load(0); uint4 b = o_bab.Load4(16); float3 c = o_bab.Load<float3>(4); S s = o_bab.Load<S>(0); o_rwbab.Store(0, a); o_rwbab.Store4(0, b); uint o; o_rwbab.InterlockedAdd(0, 1, o); }", &["o_bab", "o_rwbab", "S"]),
    ("void c_{I}() { S s = o_sb[1]; float f = o_sb[2].m_f; o_rwsb[0] = s; o_rwsb[1].m_f = f; o_rwsb[1].arr[0]++; float4 v = o_buf[3]; o_rwbuf[2] = v; o_rwbuf[2].x; }", &["o_sb", "o_rwsb", "o_buf", "o_rwbuf"]),
    ("void c_{I}() { RayDesc r; r.Origin = float3(0, 0, 0); r.TMin = 0; float3 d = r.Direction; }", &[]),
    ("void c_{I}() { float f; int i; asuint(f); asfloat(asuint(f) + 1u); asint(f) >> 1; f16tof32(f32tof16(f)); uint u = countbits(i); bool b = isnan(f) || isinf(f); }", &[]),
    ("void c_{I}() { float s, c; sincos(1.0, s, c); float ip; float fr = modf(2.5, ip); float3 s3, c3; sincos(float3(1, 2, 3), s3, c3); }", &[]),
    ("void c_{I}() { uint l = WaveGetLaneIndex(); float f = WaveActiveSum(1.5) + WaveReadLaneAt(2.5, l) + WaveReadLaneFirst(l); bool b = WaveActiveAnyTrue(l > 2); uint4 m = WaveActiveBallot(b); float q = QuadReadAcrossX(f); }", &[]),
    ("void c_{I}() { int i = min(1, 2); float f = max(1, 2.5); float g = clamp(i, 0, 1); float3 v = lerp(float3(0, 0, 0), 1, 0.5); float d = dot(v, v); v = cross(v, v.zyx); v = normalize(v) * length(v); f = select(true, f, g); }", &[]),
];

fn gen_misc(idx: u64) -> Case {
    let (t, needs) = MISC[idx as usize];
    Case { text: t.replace("{I}", &idx.to_string()), needs: needs.iter().map(|s| s.to_string()).collect() }
}

// ---------------------------------------------------------------------------------------------
// negative side: base programs and typed mutations

const NEG_PRELUDE: &str = "enum E { EA, EB };
struct S { int m_i; float m_f; int2 m_i2; float3 m_f3; bool m_b; uint m_u; int arr[2]; E m_e; };
struct T2 { int m_i; float m_f; int2 m_i2; float3 m_f3; bool m_b; uint m_u; int arr[2]; E m_e; };
cbuffer CB { int cb_i; float cb_f; int2 cb_i2; float3 cb_f3; bool cb_b; uint cb_u; S cb_s; E cb_e; }
static const int gc_i = 1; static const float gc_f = 1.0; static const int2 gc_i2 = int2(1, 2); static const float3 gc_f3 = float3(1, 2, 3); static const bool gc_b = true; static const uint gc_u = 1u; static const S gc_s; static const E gc_e = EA;
int ge_i; float ge_f; int2 ge_i2; float3 ge_f3; bool ge_b; uint ge_u; S ge_s; T2 ge_t; int ge_a[2]; float2 ge_f2; E ge_e;
typedef const int CT_i; typedef const float CT_f; typedef const int2 CT_i2; typedef const float3 CT_f3; typedef const bool CT_b; typedef const uint CT_u; typedef const E CT_e;
groupshared uint gsh_u; groupshared int gsh_i;
Texture2D<float4> o_tex; Buffer<float4> o_buf;
int h_i(); float h_f(); int2 h_i2(); float3 h_f3(); bool h_b(); uint h_u(); S h_s(); int3 h_i3(); bool3 h_b3(); uint3 h_u3(); int4 h_i4(); float4 h_f4(); E h_e();
void fi_i(int p); void fi_f(float p); void fi_i2(int2 p); void fi_f3(float3 p); void fi_b(bool p); void fi_u(uint p); void fi_e(E p);
void fo_i(out int p); void fo_f(out float p); void fo_i2(out int2 p); void fo_f3(out float3 p); void fo_b(out bool p); void fo_u(out uint p); void fo_e(out E p);
void fio_i(inout int p); void fio_f(inout float p); void fio_i2(inout int2 p); void fio_f3(inout float3 p); void fio_b(inout bool p); void fio_u(inout uint p); void fio_e(inout E p);
void f2o_i(int a, out int p); void f2o_f(float a, out float p); void f2o_i2(int2 a, out int2 p); void f2o_f3(float3 a, out float3 p); void f2o_b(bool a, out bool p); void f2o_u(uint a, out uint p); void f2o_e(E a, out E p);
void f2io_i(inout int p, int a); void f2io_f(inout float p, float a); void f2io_i2(inout int2 p, int2 a); void f2io_f3(inout float3 p, float3 a); void f2io_b(inout bool p, bool a); void f2io_u(inout uint p, uint a); void f2io_e(inout E p, E a);
struct MO { int d; void mo_i(out int p) { p = 1; } void mo_f(out float p) { p = 1; } void mo_i2(out int2 p) { p = 1; } void mo_f3(out float3 p) { p = 1; } void mo_b(out bool p) { p = true; } void mo_u(out uint p) { p = 1; } void mo_e(out E p) { p = EA; } void mio_i(inout int p) { } void mio_f(inout float p) { } void mio_i2(inout int2 p) { } void mio_f3(inout float3 p) { } void mio_b(inout bool p) { } void mio_u(inout uint p) { } void mio_e(inout E p) { } void m0() { } void m1(int a) { } void m2(int a, float b) { } void mg_i(int x) { } void mg_f3(float3 x) { } void mg_s(S x) { } void mg_a(int x[2]) { } void mg_t(T2 x) { } };
void nf0(); void nf1(int a); void nf2(int a, float b); void nf3(int a, float b, bool c); void nfd(int a, float b = 1.5); void nfdd(int a, float b = 1.5, bool c = true); void nov(int a); void nov(int a, float b);
void g1_i(int x); void g1o_i(out int x); void g1io_i(inout int x); void g2a_i(int x, int y); void g2b_i(int y, int x); void g3_i(int y, int x, float z); void gd_i(int y, int x, float z = 1.5); void gov_i(int x); void gov_i(int x, int y);
void g1_f3(float3 x); void g1o_f3(out float3 x); void g1io_f3(inout float3 x); void g2a_f3(float3 x, int y); void g2b_f3(int y, float3 x); void g3_f3(int y, float3 x, float z); void gd_f3(int y, float3 x, float z = 1.5); void gov_f3(float3 x); void gov_f3(float3 x, int y);
void g1_s(S x); void g1o_s(out S x); void g1io_s(inout S x); void g2a_s(S x, int y); void g2b_s(int y, S x); void g3_s(int y, S x, float z); void gd_s(int y, S x, float z = 1.5); void gov_s(S x); void gov_s(S x, int y);
void g1_a(int x[2]); void g1o_a(out int x[2]); void g1io_a(inout int x[2]); void g2a_a(int x[2], int y); void g2b_a(int y, int x[2]); void g3_a(int y, int x[2], float z); void gd_a(int y, int x[2], float z = 1.5); void gov_a(int x[2]); void gov_a(int x[2], int y);
void g1_t(T2 x); void g1o_t(out T2 x); void g1io_t(inout T2 x); void g2a_t(T2 x, int y); void g2b_t(int y, T2 x); void g3_t(int y, T2 x, float z); void gd_t(int y, T2 x, float z = 1.5); void gov_t(T2 x); void gov_t(T2 x, int y);
void govs(S x); void govs(T2 x); void govn(int x); void govn(float x);
";

struct NegCase {
    family: &'static str,
    class: String,
    /// what was injected where (for the detail line)
    what: String,
    /// index of the base program this mutant was derived from (usize::MAX for a base program itself)
    base: usize,
    text: String,
    expect: &'static [&'static str],
    /// the text is a complete one-line program (NEG_PRELUDE is not prepended)
    standalone: bool,
    /// appended to the signature of a panic on this case (context class; empty for the shared-prelude families)
    tag: String,
    /// the same program with the injected statement replaced by a neutral one (empty: not available). A mutant whose
    /// declarations alone are rejected is outside the negative space; a panic that the declarations alone reproduce
    /// gets the context class `declaration`.
    decl_only: std::sync::Arc<str>,
}

const EXPECT_WRITE: &[&str] = &["LvalueRequired", "MutableRequired", "UnaryOperationWrongTypes"];
const EXPECT_WRITE_ARRAY: &[&str] = &["LvalueRequired", "MutableRequired", "UnaryOperationWrongTypes", "BinaryOperationWrongTypes"];
const EXPECT_CALL: &[&str] = &["FunctionArgumentTypeMismatch"];
const EXPECT_RETURN: &[&str] = &["WrongTypeInReturnStatement"];
const EXPECT_DEFAULT: &[&str] = &["InitializerExpressionWrongType", "FunctionArgumentTypeMismatch", "WrongTypeInReturnStatement", "BinaryOperationWrongTypes"];

struct NType {
    name: &'static str,
    tag: &'static str,
    other: &'static str,
    init: &'static str,
    lit: Option<&'static str>,
}

static NTYPES: [NType; 7] = [
    NType { name: "int", tag: "i", other: "float", init: "1", lit: Some("7") },
    NType { name: "float", tag: "f", other: "int", init: "1.0", lit: Some("1.5") },
    NType { name: "int2", tag: "i2", other: "float2", init: "int2(1, 2)", lit: None },
    NType { name: "float3", tag: "f3", other: "int3", init: "float3(1, 2, 3)", lit: None },
    NType { name: "bool", tag: "b", other: "int", init: "true", lit: Some("true") },
    NType { name: "uint", tag: "u", other: "int", init: "1u", lit: Some("7u") },
    // a type without a scalar kind (added after a seeded change that skipped the const test of ++/-- for enums was missed)
    NType { name: "E", tag: "e", other: "int", init: "EA", lit: None },
];

/// local declarations shared by the write / out-argument programs of one operand type
fn ndecls(t: &NType) -> String {
    let scalar = !t.name.ends_with(|c: char| c.is_ascii_digit());
    let mut s = format!(
        "{T} l = {I}; {T} l2 = {I}; const {T} cl = {I}; const S cs; const {T} ca[2] = {{ {I}, {I} }}; {O} lo; bool lb = true; int li = 1; MO mo; ",
        T = t.name,
        I = t.init,
        O = t.other
    );
    // const that comes with a typedef name, alone and with a further modifier at the use site
    s.push_str(&format!("CT_{g} ctl = {I}; volatile CT_{g} vctl = {I}; ", g = t.tag, I = t.init));
    if t.name == "E" {
        return s;
    }
    if scalar {
        s.push_str(&format!("const {T}3 cv; {T}3 l3; const {T}2x2 cm; ", T = t.name));
    } else {
        let base = t.name.trim_end_matches(|c: char| c.is_ascii_digit());
        let n = &t.name[base.len()..];
        s.push_str(&format!("const {B}4 cv4; {B}4 l4; const {B}{N}x{N} cm; ", B = base, N = n));
    }
    s
}

/// every expression of type T that must not be written to: (class, expression)
fn nonwritable_forms(t: &NType) -> Vec<(&'static str, String)> {
    let g = t.tag;
    let scalar = !t.name.ends_with(|c: char| c.is_ascii_digit());
    let is_bool = t.name == "bool";
    let mut v: Vec<(&'static str, String)> = vec![
        ("const-local", "cl".into()),
        ("const-param", "cp".into()),
        ("static-const-global", format!("gc_{}", g)),
        ("extern-global", format!("ge_{}", g)),
        ("member-of-const", format!("cs.m_{}", g)),
        ("member-of-const", format!("cps.m_{}", g)),
        ("member-of-const", format!("ge_s.m_{}", g)),
        ("member-of-const", format!("gc_s.m_{}", g)),
        ("const-array-element", "ca[1]".into()),
        ("cbuffer-member", format!("cb_{}", g)),
        ("cbuffer-member", format!("cb_s.m_{}", g)),
        ("call-result", format!("h_{}()", g)),
        ("cast-result", format!("(({})lo)", t.name)),
        ("member-of-rvalue", format!("h_s().m_{}", g)),
        ("const-typedef-local", "ctl".into()),
        ("const-typedef-local+modifier", "vctl".into()),
    ];
    if t.name == "E" {
        // no constructors, vectors or matrices of an enum; arithmetic on enums gives int
        v.push(("enum-value", "EA".into()));
        v.push(("postincrement-result", "(l++)".into()));
        return v;
    }
    v.push(("constructor-result", format!("{}(l)", t.name)));
    if t.name == "int" {
        v.push(("member-of-const", "cs.arr[1]".into()));
        v.push(("enum-value", "EA".into()));
    }
    if let Some(l) = t.lit {
        v.push(("literal", l.into()));
    }
    if is_bool {
        v.push(("arithmetic-result", "(l && l2)".into()));
        v.push(("arithmetic-result", "(li < li)".into()));
        v.push(("unary-result", "(!l)".into()));
    } else {
        v.push(("arithmetic-result", "(l + l2)".into()));
        v.push(("arithmetic-result", "(l + 0)".into()));
        v.push(("unary-result", "(-l)".into()));
        v.push(("postincrement-result", "(l++)".into()));
    }
    // rows and elements of a const matrix (added after a seeded change that dropped `const` from a matrix row was missed)
    if scalar {
        v.push(("const-matrix-element", "cm[1][0]".into()));
        v.push(("const-matrix-element", "cm._m10".into()));
    } else {
        v.push(("const-matrix-row", "cm[1]".into()));
    }
    if scalar {
        v.push(("const-vector-component", "cv.y".into()));
        v.push(("const-vector-component", "cv[1]".into()));
        v.push(("subscript-of-rvalue", format!("h_{}3()[1]", g)));
        v.push(("subscript-of-rvalue", if is_bool { "(!l3)[1]".into() } else { "(l3 + l3)[1]".into() }));
        v.push(("swizzle-of-rvalue", format!("h_{}3().y", g)));
    } else if t.name == "int2" {
        v.push(("const-vector-component", "cv4.xy".into()));
        v.push(("swizzle-repeated", "l4.xx".into()));
        v.push(("swizzle-of-rvalue", "h_i4().xy".into()));
    } else {
        v.push(("const-vector-component", "cv4.xyz".into()));
        v.push(("swizzle-repeated", "l4.xyx".into()));
        v.push(("swizzle-of-rvalue", "h_f4().xyz".into()));
    }
    v
}

/// skeleton positions for an expression statement `{W}` of operand type T: (name, program with {W} {D} {T} {g} {I})
const WRITE_POSITIONS: [(&str, &str); 15] = [
    ("stmt", "void m_{I}(const {T} cp, const S cps) { {D}{W}; }"),
    ("if", "void m_{I}(const {T} cp, const S cps) { {D}if (lb) { {W}; } }"),
    ("else", "void m_{I}(const {T} cp, const S cps) { {D}if (lb) { } else { {W}; } }"),
    ("for-init", "void m_{I}(const {T} cp, const S cps) { {D}for ({W}; lb; ) { break; } }"),
    ("for-iter", "void m_{I}(const {T} cp, const S cps) { {D}for (; lb; {W}) { break; } }"),
    ("while", "void m_{I}(const {T} cp, const S cps) { {D}while (lb) { {W}; break; } }"),
    ("do", "void m_{I}(const {T} cp, const S cps) { {D}do { {W}; } while (lb); }"),
    ("switch", "void m_{I}(const {T} cp, const S cps) { {D}switch (li) { case 1: {W}; break; default: break; } }"),
    ("block", "void m_{I}(const {T} cp, const S cps) { {D}{ { {W}; } } }"),
    ("initialiser", "void m_{I}(const {T} cp, const S cps) { {D}{T} q = ({W}); }"),
    ("argument", "void m_{I}(const {T} cp, const S cps) { {D}fi_{g}(({W})); }"),
    ("sequence", "void m_{I}(const {T} cp, const S cps) { {D}(li, ({W})); }"),
    ("return", "{T} m_{I}(const {T} cp, const S cps) { {D}return ({W}); }"),
    ("method", "struct M_{I} { int fld; void meth_{I}(const {T} cp, const S cps) { {D}{W}; } };"),
    ("template", "template<typename Q> void t_{I}(Q q, const {T} cp, const S cps) { {D}{W}; } void m_{I}() { t_{I}(1, h_{g}(), h_s()); }"),
];

const CALL_POSITIONS: [usize; 6] = [0, 1, 4, 8, 13, 14];

fn fill(tpl: &str, t: &NType, decls: &str, w: &str, i: usize) -> String {
    tpl.replace("{D}", decls).replace("{W}", w).replace("{T}", t.name).replace("{g}", t.tag).replace("{I}", &i.to_string())
}

fn neg_cases() -> Vec<NegCase> {
    let mut out: Vec<NegCase> = Vec::new();
    let mut push_group = |out: &mut Vec<NegCase>, family: &'static str, expect: &'static [&'static str], base_text: &dyn Fn(usize) -> String, muts: Vec<(String, String, Box<dyn Fn(usize) -> String>)>| {
        let bi = out.len();
        out.push(NegCase { family, class: "base".into(), what: "base program".into(), base: usize::MAX, text: base_text(bi), expect, standalone: false, tag: String::new(), decl_only: "".into() });
        for (class, what, f) in muts {
            let i = out.len();
            out.push(NegCase { family, class, what, base: bi, text: f(i), expect, standalone: false, tag: String::new(), decl_only: "".into() });
        }
    };

    // --- writes: every position x every write operator x every operand type x every non-writable form
    for t in NTYPES.iter() {
        let decls = ndecls(t);
        let forms = nonwritable_forms(t);
        let mut ctxs: Vec<(String, String)> = Vec::new();
        for op in ASSIGN_OPS {
            ctxs.push((format!("{{X}} {} l2", op), format!("operator {}", op)));
        }
        for (tpl, name) in [("++{X}", "prefix ++"), ("--{X}", "prefix --"), ("{X}++", "postfix ++"), ("{X}--", "postfix --")] {
            ctxs.push((tpl.to_string(), name.to_string()));
        }
        for (pname, ptpl) in WRITE_POSITIONS {
            for (ctx, cname) in &ctxs {
                let (t2, d2, c2) = (t, decls.clone(), ctx.clone());
                let base = move |i: usize| fill(ptpl, t2, &d2, &c2.replace("{X}", "l"), i);
                let mut muts: Vec<(String, String, Box<dyn Fn(usize) -> String>)> = Vec::new();
                for (class, x) in &forms {
                    let (d3, c3, x3) = (decls.clone(), ctx.clone(), x.clone());
                    muts.push((class.to_string(), format!("{} applied to `{}` ({}), position {}", cname, x, t.name, pname), Box::new(move |i| fill(ptpl, t2, &d3, &c3.replace("{X}", &x3), i))));
                }
                push_group(&mut out, "write", EXPECT_WRITE, &base, muts);
            }
        }
    }

    // --- out / inout arguments
    for t in NTYPES.iter() {
        let decls = ndecls(t);
        let forms = nonwritable_forms(t);
        let g = t.tag;
        let mut ctxs: Vec<(String, String, String)> = vec![
            (String::new(), format!("fo_{}({{X}})", g), "out parameter".into()),
            (String::new(), format!("fio_{}({{X}})", g), "inout parameter".into()),
            (String::new(), format!("f2o_{}(l2, {{X}})", g), "second (out) parameter".into()),
            (String::new(), format!("f2io_{}({{X}}, l2)", g), "first (inout) parameter".into()),
            (String::new(), format!("mo.mo_{}({{X}})", g), "out parameter of a method".into()),
            (String::new(), format!("mo.mio_{}({{X}})", g), "inout parameter of a method".into()),
            ("template<typename Q> void to_{I}(out Q p) { } ".into(), "to_{I}({X})".into(), "out parameter of a function template (inferred)".into()),
            (format!("template<typename Q> void to_{{I}}(inout Q p) {{ }} "), format!("to_{{I}}<{}>({{X}})", t.name), "inout parameter of a function template (explicit)".into()),
        ];
        match t.name {
            "float" | "float3" => {
                ctxs.push((String::new(), "sincos(l2, {X}, l)".into(), "out parameter of sincos".into()));
                ctxs.push((String::new(), "sincos(l2, l, {X})".into(), "second out parameter of sincos".into()));
                ctxs.push((String::new(), "modf(l2, {X})".into(), "out parameter of modf".into()));
            }
            "int" | "int2" => ctxs.push((String::new(), "modf(l2, {X})".into(), "out parameter of modf".into())),
            _ => {}
        }
        match t.name {
            "uint" => {
                ctxs.push((String::new(), "InterlockedAdd(gsh_u, 1u, {X})".into(), "out parameter of InterlockedAdd".into()));
                ctxs.push((String::new(), "o_tex.GetDimensions({X}, l2)".into(), "out parameter of GetDimensions".into()));
                ctxs.push((String::new(), "o_buf.Load(li, {X})".into(), "out status parameter of Buffer.Load".into()));
            }
            "int" => ctxs.push((String::new(), "InterlockedAdd(gsh_i, 1, {X})".into(), "out parameter of InterlockedAdd".into())),
            "float" => ctxs.push((String::new(), "o_tex.GetDimensions({X}, l2)".into(), "out parameter of GetDimensions".into())),
            _ => {}
        }
        for pi in CALL_POSITIONS {
            let (pname, ptpl) = WRITE_POSITIONS[pi];
            for (before, ctx, cname) in &ctxs {
                let tpl = format!("{}{}", before, ptpl);
                let (t2, d2, c2, tp2) = (t, decls.clone(), ctx.clone(), tpl.clone());
                let base = move |i: usize| fill(&tp2, t2, &d2, &c2.replace("{X}", "l"), i);
                let mut muts: Vec<(String, String, Box<dyn Fn(usize) -> String>)> = Vec::new();
                for (class, x) in &forms {
                    let (d3, c3, x3, tp3) = (decls.clone(), ctx.clone(), x.clone(), tpl.clone());
                    muts.push((class.to_string(), format!("`{}` ({}) passed to the {}, position {}", x, t.name, cname, pname), Box::new(move |i| fill(&tp3, t2, &d3, &c3.replace("{X}", &x3), i))));
                }
                push_group(&mut out, "out-arg", EXPECT_CALL, &base, muts);
            }
        }
    }

    let ti: &'static NType = &NTYPES[0];
    let cdecls = "int li = 1; float lf = 1.0; bool lb = true; uint lu = 1u; float2 lf2; int2 li2; float3 lf3 = float3(1, 2, 3); S ls; T2 lt; int la[2]; float la3[3]; MO mo; ";

    // --- wrong number of arguments
    {
        // (kind, text before, callee with {I}, valid arguments, valid argument counts)
        let callables: Vec<(&str, &str, &str, Vec<&str>, Vec<usize>)> = vec![
            ("user-function", "", "nf0", vec![], vec![0]),
            ("user-function", "", "nf1", vec!["li"], vec![1]),
            ("user-function", "", "nf2", vec!["li", "lf"], vec![2]),
            ("user-function", "", "nf3", vec!["li", "lf", "lb"], vec![3]),
            ("default-parameters", "", "nfd", vec!["li"], vec![1, 2]),
            ("default-parameters", "", "nfd", vec!["li", "lf"], vec![1, 2]),
            ("default-parameters", "", "nfdd", vec!["li"], vec![1, 2, 3]),
            ("default-parameters", "", "nfdd", vec!["li", "lf", "lb"], vec![1, 2, 3]),
            ("overloaded", "", "nov", vec!["li"], vec![1, 2]),
            ("overloaded", "", "nov", vec!["li", "lf"], vec![1, 2]),
            ("method", "", "mo.m0", vec![], vec![0]),
            ("method", "", "mo.m1", vec!["li"], vec![1]),
            ("method", "", "mo.m2", vec!["li", "lf"], vec![2]),
            ("template", "template<typename Q> void tp_{I}(Q a) { } ", "tp_{I}", vec!["li"], vec![1]),
            ("template", "template<typename Q> void tp_{I}(Q a, Q b) { } ", "tp_{I}<int>", vec!["li", "li"], vec![2]),
            ("intrinsic", "", "abs", vec!["li"], vec![1]),
            ("intrinsic", "", "min", vec!["li", "li"], vec![2]),
            ("intrinsic", "", "clamp", vec!["li", "li", "li"], vec![3]),
            ("intrinsic", "", "dot", vec!["lf3", "lf3"], vec![2]),
            ("intrinsic", "", "sin", vec!["lf"], vec![1]),
            ("intrinsic", "", "lerp", vec!["lf", "lf", "lf"], vec![3]),
            ("intrinsic", "", "all", vec!["lb"], vec![1]),
            ("intrinsic", "", "GroupMemoryBarrier", vec![], vec![0]),
            ("intrinsic-method", "", "o_buf.Load", vec!["li"], vec![1, 2]),
            ("intrinsic-method", "", "o_buf.GetDimensions", vec!["lu"], vec![1]),
        ];
        for pi in CALL_POSITIONS {
            let (pname, ptpl) = WRITE_POSITIONS[pi];
            for (kind, before, callee, args, valid) in &callables {
                let tpl = format!("{}{}", before, ptpl);
                let call = |a: &[&str]| format!("{}({})", callee, a.join(", "));
                let bw = call(args);
                let tp2 = tpl.clone();
                let base = move |i: usize| fill(&tp2, ti, cdecls, &bw, i);
                let mut variants: Vec<(&str, Vec<&str>)> = Vec::new();
                for j in 0..args.len() {
                    let mut a = args.clone();
                    a.remove(j);
                    variants.push(("too-few", a));
                }
                if args.len() >= 2 {
                    variants.push(("too-few", args[..args.len() - 2].to_vec()));
                }
                for j in 0..=args.len() {
                    let mut a = args.clone();
                    a.insert(j, "li");
                    variants.push(("too-many", a));
                }
                let mut a = args.clone();
                a.push("li");
                a.push("li");
                variants.push(("too-many", a));
                let mut muts: Vec<(String, String, Box<dyn Fn(usize) -> String>)> = Vec::new();
                for (dir, a) in variants {
                    if valid.contains(&a.len()) {
                        continue;
                    }
                    let w = call(&a);
                    let tp3 = tpl.clone();
                    muts.push((format!("{}|{}", dir, kind), format!("`{}` ({} arguments, valid: {:?}), position {}", w, a.len(), valid, pname), Box::new(move |i| fill(&tp3, ti, cdecls, &w, i))));
                }
                push_group(&mut out, "arg-count", EXPECT_CALL, &base, muts);
            }
        }
    }

    // --- arguments of an unconvertible type
    {
        // (tag, valid argument, [(class, unconvertible argument)])
        let ptypes: Vec<(&str, &str, &str, Vec<(&str, &str)>)> = vec![
            ("i", "int", "li", vec![("struct-to-scalar", "ls"), ("array-to-scalar", "la"), ("struct-to-scalar", "h_s()")]),
            ("f3", "float3", "lf3", vec![("struct-to-vector", "ls"), ("array-to-vector", "la3"), ("vector-widen", "lf2"), ("vector-widen", "li2")]),
            ("s", "S", "ls", vec![("scalar-to-struct", "li"), ("scalar-to-struct", "1"), ("vector-to-struct", "lf3"), ("different-struct", "lt"), ("array-to-struct", "la")]),
            ("a", "int[2]", "la", vec![("scalar-to-array", "li"), ("scalar-to-array", "1"), ("struct-to-array", "ls")]),
            ("t", "T2", "lt", vec![("different-struct", "ls")]),
        ];
        for (g, tname, valid, bads) in &ptypes {
            let mut ctxs: Vec<(String, String)> = vec![
                (String::new(), format!("g1_{}({{X}})", g)),
                (String::new(), format!("g1o_{}({{X}})", g)),
                (String::new(), format!("g1io_{}({{X}})", g)),
                (String::new(), format!("g2a_{}({{X}}, li)", g)),
                (String::new(), format!("g2b_{}(li, {{X}})", g)),
                (String::new(), format!("g3_{}(li, {{X}}, lf)", g)),
                (String::new(), format!("gd_{}(li, {{X}})", g)),
                (String::new(), format!("gd_{}(li, {{X}}, lf)", g)),
                (String::new(), format!("gov_{}({{X}})", g)),
                (String::new(), format!("gov_{}({{X}}, li)", g)),
                (String::new(), format!("mo.mg_{}({{X}})", g)),
                ("template<typename Q> void tg_{I}(Q a, Q b) { } ".into(), format!("tg_{{I}}({}, {{X}})", valid)),
            ];
            if *g != "a" {
                ctxs.push(("template<typename Q> void tg_{I}(Q a) { } ".into(), format!("tg_{{I}}<{}>({{X}})", tname)));
            }
            match *g {
                "i" => {
                    ctxs.push((String::new(), "abs({X})".into()));
                    ctxs.push((String::new(), "min(li, {X})".into()));
                    ctxs.push((String::new(), "clamp(li, {X}, li)".into()));
                    ctxs.push((String::new(), "govn({X})".into()));
                }
                "f3" => {
                    ctxs.push((String::new(), "cross({X}, lf3)".into()));
                }
                "s" => ctxs.push((String::new(), "govs({X})".into())),
                _ => {}
            }
            for pi in CALL_POSITIONS {
                let (pname, ptpl) = WRITE_POSITIONS[pi];
                for (before, ctx) in &ctxs {
                    let tpl = format!("{}{}", before, ptpl);
                    let (c2, tp2, v2) = (ctx.clone(), tpl.clone(), valid.to_string());
                    let base = move |i: usize| fill(&tp2, ti, cdecls, &c2.replace("{X}", &v2), i);
                    let mut muts: Vec<(String, String, Box<dyn Fn(usize) -> String>)> = Vec::new();
                    for (class, x) in bads {
                        // the two overloads of govs/govn must both be unconvertible from the argument
                        if ctx.starts_with("govs") && *class == "different-struct" {
                            continue;
                        }
                        let (c3, tp3, x3) = (ctx.clone(), tpl.clone(), x.to_string());
                        muts.push((class.to_string(), format!("`{}` passed where {} is required: {}, position {}", x, tname, ctx, pname), Box::new(move |i| fill(&tp3, ti, cdecls, &c3.replace("{X}", &x3), i))));
                    }
                    push_group(&mut out, "arg-type", EXPECT_CALL, &base, muts);
                }
            }
        }
    }

    // --- returns
    {
        let positions: [(&str, &str); 10] = [
            ("last", "{R} r_{I}() { {D}{RET} }"),
            ("if", "{R} r_{I}() { {D}if (lb) { {RET} } {OK} }"),
            ("else", "{R} r_{I}() { {D}if (lb) { {OK} } else { {RET} } }"),
            ("for", "{R} r_{I}() { {D}for (int k = 0; k < 2; ++k) { {RET} } {OK} }"),
            ("while", "{R} r_{I}() { {D}while (lb) { {RET} } {OK} }"),
            ("switch", "{R} r_{I}() { {D}switch (li) { case 1: {RET} default: break; } {OK} }"),
            ("block", "{R} r_{I}() { {D}{ { {RET} } } {OK} }"),
            ("after-return", "{R} r_{I}() { {D}{OK} {RET} }"),
            ("method", "struct M_{I} { int fld; {R} meth_{I}() { {D}{RET} } };"),
            ("template", "template<typename Q> {R} t_{I}(Q q) { {D}{RET} } void m_{I}() { t_{I}(1); }"),
        ];
        let rdecls = "int li = 1; float lf = 1.0; bool lb = true; uint lu = 1u; half lh = 1; double ld = 1; float2 lf2; int2 li2; float3 lf3 = float3(1, 2, 3); S ls; T2 lt; int la[2]; float la3[3]; E le = EA; ";
        // (return type, valid statement, [(class, ill-typed statement)])
        let rtypes: Vec<(&str, &str, Vec<(&str, &str)>)> = vec![
            ("int", "return li;", vec![("struct-to-scalar", "return ls;"), ("array-to-scalar", "return la;"), ("missing-value", "return;")]),
            ("float3", "return lf3;", vec![("struct-to-vector", "return ls;"), ("array-to-vector", "return la3;"), ("vector-widen", "return lf2;"), ("missing-value", "return;")]),
            ("S", "return ls;", vec![("scalar-to-struct", "return li;"), ("scalar-to-struct", "return 1;"), ("vector-to-struct", "return lf3;"), ("different-struct", "return lt;"), ("array-to-struct", "return la;"), ("missing-value", "return;")]),
            ("T2", "return lt;", vec![("different-struct", "return ls;"), ("missing-value", "return;")]),
            ("bool", "return lb;", vec![("struct-to-scalar", "return ls;"), ("missing-value", "return;")]),
            ("uint", "return lu;", vec![("struct-to-scalar", "return ls;"), ("missing-value", "return;")]),
            ("float", "return lf;", vec![("struct-to-scalar", "return ls;"), ("array-to-scalar", "return la3;"), ("missing-value", "return;")]),
            ("half", "return lh;", vec![("missing-value", "return;")]),
            ("double", "return ld;", vec![("missing-value", "return;")]),
            ("int2", "return li2;", vec![("struct-to-vector", "return ls;"), ("missing-value", "return;")]),
            ("E", "return le;", vec![("struct-to-enum", "return ls;"), ("missing-value", "return;")]),
            (
                "void",
                "return;",
                vec![("value-in-void", "return li;"), ("value-in-void", "return 1;"), ("value-in-void", "return 1.5;"), ("value-in-void", "return lb;"), ("value-in-void", "return lf3;"), ("value-in-void", "return ls;"), ("value-in-void", "return la;"), ("value-in-void", "return h_i();"), ("value-in-void", "return (li = 2);")],
            ),
        ];
        for (pname, ptpl) in positions {
            for (r, ok, bads) in &rtypes {
                let (r, ok): (&'static str, &'static str) = (*r, *ok);
                let mk = move |ret: &str, i: usize| ptpl.replace("{R}", r).replace("{D}", rdecls).replace("{RET}", ret).replace("{OK}", ok).replace("{I}", &i.to_string());
                let ok2 = ok.to_string();
                let base = move |i: usize| mk(&ok2, i);
                let mut muts: Vec<(String, String, Box<dyn Fn(usize) -> String>)> = Vec::new();
                for (class, ret) in bads {
                    let ret2 = ret.to_string();
                    muts.push((class.to_string(), format!("`{}` in a function returning {}, position {}", ret, r, pname), Box::new(move |i| mk(&ret2, i))));
                }
                push_group(&mut out, "return", EXPECT_RETURN, &base, muts);
            }
        }
    }

    // --- default arguments of an unconvertible type
    {
        let forms: [(&str, &str); 2] = [("declaration", "void d_{I}({P} p = {X}) { }"), ("used", "void d_{I}({P} p = {X}) { } void e_{I}() { d_{I}(); }")];
        let ptypes: Vec<(&str, &str, Vec<(&str, &str)>)> = vec![
            ("int", "ge_i", vec![("struct-to-scalar", "ge_s"), ("array-to-scalar", "ge_a")]),
            ("float3", "ge_f3", vec![("struct-to-vector", "ge_s"), ("vector-widen", "ge_f2")]),
            ("S", "ge_s", vec![("scalar-to-struct", "1"), ("scalar-to-struct", "ge_i"), ("different-struct", "ge_t")]),
        ];
        for (fname, ftpl) in forms {
            for (p, ok, bads) in &ptypes {
                let (p, ok): (&'static str, &'static str) = (*p, *ok);
                let mk = move |x: &str, i: usize| ftpl.replace("{P}", p).replace("{X}", x).replace("{I}", &i.to_string());
                let ok2 = ok.to_string();
                let base = move |i: usize| mk(&ok2, i);
                let mut muts: Vec<(String, String, Box<dyn Fn(usize) -> String>)> = Vec::new();
                for (class, x) in bads {
                    let x2 = x.to_string();
                    muts.push((class.to_string(), format!("default argument `{}` for a parameter of type {} ({})", x, p, fname), Box::new(move |i| mk(&x2, i))));
                }
                push_group(&mut out, "default-arg", EXPECT_DEFAULT, &base, muts);
            }
        }
    }
    out
}

fn neg_source(c: &NegCase) -> String {
    if c.standalone { format!("{}\n", c.text) } else { format!("{}{}\n", NEG_PRELUDE, c.text) }
}

fn tagged(sig: String, tag: &str) -> String {
    if tag.is_empty() { sig } else { format!("{}|{}", sig, tag) }
}

fn mutant_replay(c: &NegCase, src: &str) -> String {
    mutant_replay_of(c.family, &c.class, c.expect, &c.tag, src)
}

/// `expect:` line: accepted error classes, then `;` and the panic tag when there is one
fn mutant_replay_of(family: &str, class: &str, expect: &[&str], tag: &str, src: &str) -> String {
    let t = if tag.is_empty() { String::new() } else { format!(";{}", tag) };
    format!("kind: mutant\nfamily: {}\nclass: {}\nexpect: {}{}\n{}", family, class, expect.join(","), t, src)
}

/// Does the program with the injected statement replaced by a neutral one (the declarations alone) already panic with
/// the same signature?
fn declarations_panic_alike(decl_only: &str, sig: &str) -> bool {
    !decl_only.is_empty() && matches!(tc(&format!("{}\n", decl_only)), TcOut::Panic(q) if psig(&q) == sig)
}

/// oracle of the negative side for one mutant
fn check_mutant(family: &str, class: &str, what: &str, expect: &[&str], src: &str, replay: String, tag: &str, decl_only: &str, acc: &mut Acc) {
    acc.count("type_checks");
    match tc(src) {
        TcOut::Ok(_) => {
            acc.count("mutants_accepted");
            acc.violation(Violation {
                signature: format!("illtyped-accepted|{}|{}", family, class),
                detail: format!("type_check accepted a program with one injected violation: {} :: {}", what, one_line(src.lines().last().unwrap_or(""), 400)),
                replay,
            });
        }
        TcOut::Rej { class: ec, msg, .. } => {
            if !expect.contains(&ec.as_str()) && !decl_only.is_empty() {
                // the declarations alone are refused: the case carries no injected violation that could be judged
                if let TcOut::Rej { class: dc, .. } = tc(&format!("{}\n", decl_only)) {
                    if dc == ec {
                        acc.count(&format!("mutants_not_applicable_declaration_rejected|{}|{}", family, ec));
                        return;
                    }
                }
            }
            acc.count("mutants_rejected");
            acc.count(&format!("mutants_rejected|{}|{}", family, ec));
            acc.outcome(&(family, class, ec.as_str()));
            if !expect.contains(&ec.as_str()) {
                acc.violation(Violation {
                    signature: format!("machinery|mutant-rejected-for-unrelated-reason|{}|{}", family, ec),
                    detail: format!("{}: rejected with {} ({}), expected one of {:?}", what, ec, one_line(&msg, 200), expect),
                    replay,
                });
            }
        }
        TcOut::ParseErr(msg) => acc.violation(Violation { signature: format!("machinery|generated-mutant-does-not-parse|{}", family), detail: format!("{}: {}", what, one_line(&msg, 300)), replay }),
        TcOut::Panic(p) => {
            acc.count("panicked");
            let sig = psig(&p);
            if declarations_panic_alike(decl_only, &sig) {
                acc.violation(Violation {
                    signature: tagged(sig, "declaration"),
                    detail: format!("type_check panicked ({}) on the declarations of a mutant: {} :: {}", one_line(&p.message, 200), what, one_line(decl_only, 300)),
                    replay: mutant_replay_of(family, class, expect, "declaration", &format!("{}\n", decl_only)),
                });
            } else {
                acc.violation(Violation { signature: tagged(sig, tag), detail: format!("type_check panicked ({}) on a mutant: {}", one_line(&p.message, 200), what), replay });
            }
        }
    }
}

// ---------------------------------------------------------------------------------------------
// negative side, second family: writes through types that carry a modifier besides `const`
//
// Dimension: {storage kind that makes the target non-writable} x {modifier set on the declared type} x {type} x
// {access path into the value} x {write context} (x {statement position} in the thorough tier). The base program of
// every mutant is the same program with the writable counterpart of the storage kind (static global, plain local or
// parameter, RW resource), so a mutant only counts when the write itself is well-typed.

/// (class, global declarations, parameter, local declarations, target expression) with `{M}` modifiers, `{T}` type
struct StorageKind {
    class: &'static str,
    /// 'g' extern/static global, 'l' local, 'p' parameter, 'r' resource element, 't' typedef, 'm' struct member
    site: char,
    ro: (&'static str, &'static str, &'static str, &'static str),
    rw: (&'static str, &'static str, &'static str, &'static str),
}

const STORAGE_KINDS: [StorageKind; 31] = [
    StorageKind { class: "extern-global", site: 'g', ro: ("{M} {T} w;", "", "", "w"), rw: ("static {M} {T} w;", "", "", "w") },
    StorageKind { class: "extern-global", site: 'g', ro: ("extern {M} {T} w;", "", "", "w"), rw: ("static {M} {T} w;", "", "", "w") },
    StorageKind { class: "extern-global", site: 'g', ro: ("typedef {M} {T} TD; TD w;", "", "", "w"), rw: ("typedef {M} {T} TD; static TD w;", "", "", "w") },
    StorageKind { class: "static-const-global", site: 'g', ro: ("static const {M} {T} w;", "", "", "w"), rw: ("static {M} {T} w;", "", "", "w") },
    StorageKind { class: "const-local", site: 'l', ro: ("", "", "const {M} {T} w;", "w"), rw: ("", "", "{M} {T} w;", "w") },
    StorageKind { class: "const-local", site: 'l', ro: ("", "", "{M} const {T} w;", "w"), rw: ("", "", "{M} {T} w;", "w") },
    StorageKind { class: "const-local", site: 'l', ro: ("typedef {M} {T} TD;", "", "const TD w;", "w"), rw: ("typedef {M} {T} TD;", "", "TD w;", "w") },
    StorageKind { class: "const-param", site: 'p', ro: ("", "const {M} {T} w", "", "w"), rw: ("", "{M} {T} w", "", "w") },
    StorageKind { class: "read-only-resource-element", site: 'r', ro: ("Buffer<{M} {T}> w;", "", "", "w[0]"), rw: ("RWBuffer<{M} {T}> w;", "", "", "w[0]") },
    StorageKind { class: "read-only-resource-element", site: 'r', ro: ("StructuredBuffer<{M} {T}> w;", "", "", "w[0]"), rw: ("RWStructuredBuffer<{M} {T}> w;", "", "", "w[0]") },
    StorageKind { class: "read-only-resource-element", site: 'r', ro: ("Texture2D<{M} {T}> w;", "", "", "w[uint2(0, 0)]"), rw: ("RWTexture2D<{M} {T}> w;", "", "", "w[uint2(0, 0)]") },
    StorageKind { class: "read-only-resource-element", site: 'r', ro: ("Texture2DArray<{M} {T}> w;", "", "", "w[uint3(0, 0, 0)]"), rw: ("RWTexture2DArray<{M} {T}> w;", "", "", "w[uint3(0, 0, 0)]") },
    StorageKind { class: "read-only-resource-element", site: 'r', ro: ("Texture3D<{M} {T}> w;", "", "", "w[uint3(0, 0, 0)]"), rw: ("RWTexture3D<{M} {T}> w;", "", "", "w[uint3(0, 0, 0)]") },
    StorageKind { class: "read-only-resource-element", site: 'r', ro: ("Texture2D<{M} {T}> w;", "", "", "w.mips[0][uint2(0, 0)]"), rw: ("RWTexture2D<{M} {T}> w;", "", "", "w[uint2(0, 0)]") },
    StorageKind { class: "read-only-resource-element", site: 'r', ro: ("Texture2DArray<{M} {T}> w;", "", "", "w.mips[0][uint3(0, 0, 0)]"), rw: ("RWTexture2DArray<{M} {T}> w;", "", "", "w[uint3(0, 0, 0)]") },
    StorageKind { class: "read-only-resource-element", site: 'r', ro: ("Texture3D<{M} {T}> w;", "", "", "w.mips[0][uint3(0, 0, 0)]"), rw: ("RWTexture3D<{M} {T}> w;", "", "", "w[uint3(0, 0, 0)]") },
    // `const` that comes with a named type while the declaration using the name adds the other modifiers (added after a
    // seeded change that dropped the modifiers of the named type whenever the use site had modifiers of its own was
    // missed): {origin of const: typedef, typedef of a typedef, typedef that also carries volatile} x {site of the use:
    // local, static local, parameter (only / middle / inout), second typedef, static / groupshared global,
    // element type of a writable resource, struct member}
    StorageKind { class: "const-typedef-local", site: 'l', ro: ("typedef const {T} TD;", "", "{M} TD w;", "w"), rw: ("typedef {T} TD;", "", "{M} TD w;", "w") },
    StorageKind { class: "const-typedef-local", site: 'l', ro: ("typedef const {T} TD0; typedef TD0 TD;", "", "{M} TD w;", "w"), rw: ("typedef {T} TD0; typedef TD0 TD;", "", "{M} TD w;", "w") },
    StorageKind { class: "const-typedef-local", site: 't', ro: ("typedef const {T} TD0; typedef {M} TD0 TD;", "", "TD w;", "w"), rw: ("typedef {T} TD0; typedef {M} TD0 TD;", "", "TD w;", "w") },
    StorageKind { class: "const-typedef-local", site: 'l', ro: ("typedef const volatile {T} TD;", "", "{M} TD w;", "w"), rw: ("typedef volatile {T} TD;", "", "{M} TD w;", "w") },
    StorageKind { class: "const-typedef-local", site: 'l', ro: ("typedef const {T} TD;", "", "static {M} TD w;", "w"), rw: ("typedef {T} TD;", "", "static {M} TD w;", "w") },
    StorageKind { class: "const-typedef-param", site: 'p', ro: ("typedef const {T} TD;", "{M} TD w", "", "w"), rw: ("typedef {T} TD;", "{M} TD w", "", "w") },
    StorageKind { class: "const-typedef-param", site: 'p', ro: ("typedef const {T} TD;", "inout {M} TD w", "", "w"), rw: ("typedef {T} TD;", "inout {M} TD w", "", "w") },
    StorageKind { class: "const-typedef-param", site: 'p', ro: ("typedef const {T} TD;", "int a, {M} TD w, int b", "", "w"), rw: ("typedef {T} TD;", "int a, {M} TD w, int b", "", "w") },
    StorageKind { class: "const-typedef-global", site: 'g', ro: ("typedef const {T} TD; static {M} TD w;", "", "", "w"), rw: ("typedef {T} TD; static {M} TD w;", "", "", "w") },
    StorageKind { class: "const-typedef-global", site: 'g', ro: ("typedef const {T} TD; groupshared {M} TD w;", "", "", "w"), rw: ("typedef {T} TD; groupshared {M} TD w;", "", "", "w") },
    StorageKind { class: "const-typedef-resource-element", site: 'r', ro: ("typedef const {T} TD; RWBuffer<{M} TD> w;", "", "", "w[0]"), rw: ("typedef {T} TD; RWBuffer<{M} TD> w;", "", "", "w[0]") },
    StorageKind { class: "const-typedef-resource-element", site: 'r', ro: ("typedef const {T} TD; RWStructuredBuffer<{M} TD> w;", "", "", "w[0]"), rw: ("typedef {T} TD; RWStructuredBuffer<{M} TD> w;", "", "", "w[0]") },
    StorageKind { class: "const-typedef-resource-element", site: 'r', ro: ("typedef const {T} TD; RWTexture2D<{M} TD> w;", "", "", "w[uint2(0, 0)]"), rw: ("typedef {T} TD; RWTexture2D<{M} TD> w;", "", "", "w[uint2(0, 0)]") },
    StorageKind { class: "const-typedef-member", site: 'm', ro: ("typedef const {T} TD; struct SS { int pad; {M} TD m; };", "", "SS w;", "w.m"), rw: ("typedef {T} TD; struct SS { int pad; {M} TD m; };", "", "SS w;", "w.m") },
    StorageKind { class: "const-typedef-member", site: 'm', ro: ("typedef const {T} TD; struct SS { int pad; {M} TD m; }; static SS w;", "", "", "w.m"), rw: ("typedef {T} TD; struct SS { int pad; {M} TD m; }; static SS w;", "", "", "w.m") },
];

/// a target type of the modifier space: `float` types take unorm/snorm, matrices also a matrix order
struct ModType {
    name: &'static str,
    /// definitions the type name needs
    prelude: &'static str,
    /// appended to the class of a mutant ("" for numeric types): types without a scalar kind are classes of their own
    /// (added after a seeded change that skipped the const test of ++/-- for exactly those types was missed)
    tclass: &'static str,
    /// access paths as (suffix, type of the path)
    paths: Vec<(&'static str, &'static str)>,
}

fn modified_types(quick: bool) -> Vec<ModType> {
    let mt = |name, paths| ModType { name, prelude: "", tclass: "", paths };
    let mut v = vec![
        mt("float2x2", vec![("", "float2x2"), ("[1]", "float2"), ("[1][0]", "float"), ("._m00", "float"), ("._m00_m11", "float2")]),
        mt("float4", vec![("", "float4"), ("[1]", "float"), (".x", "float"), (".xy", "float2")]),
        mt("float", vec![("", "float")]),
        mt("int", vec![("", "int")]),
        // types that have no scalar kind: enum, struct (whole value only: a member of a const struct is a recorded
        // finding of its own), array (through a typedef, so that the declarator keeps the shape `T w`)
        ModType { name: "E", prelude: "enum E { EA, EB };", tclass: "+enum", paths: vec![("", "E")] },
        ModType { name: "ST", prelude: "struct ST { float a; int b; };", tclass: "+struct", paths: vec![("", "ST")] },
        ModType { name: "A2", prelude: "typedef float A2[2];", tclass: "+array", paths: vec![("", "A2"), ("[1]", "float")] },
    ];
    if !quick {
        v.push(mt("float4x4", vec![("", "float4x4"), ("[1]", "float4"), ("[1][0]", "float"), ("._m00", "float"), ("._m00_m11", "float2")]));
        v.push(mt("float3x2", vec![("", "float3x2"), ("[1]", "float2"), ("[1][0]", "float"), ("._m00", "float"), ("._m00_m11", "float2")]));
        v.push(mt("float2", vec![("", "float2"), ("[1]", "float"), (".x", "float"), (".xy", "float2")]));
        v.push(mt("uint3", vec![("", "uint3"), ("[1]", "uint"), (".x", "uint"), (".xy", "uint2")]));
        v.push(mt("uint", vec![("", "uint")]));
        v.push(mt("bool", vec![("", "bool")]));
        v.push(mt("half", vec![("", "half")]));
        v.push(mt("double", vec![("", "double")]));
        v.push(ModType { name: "AE", prelude: "enum E { EA, EB }; typedef E AE[2];", tclass: "+enum", paths: vec![("[1]", "E")] });
    }
    v
}

/// modifier sets that may be written on a declaration of type `t` at the given site (the empty set first: the control)
fn modifier_sets(t: &str, site: char, quick: bool) -> Vec<&'static str> {
    let is_float = t.starts_with("float");
    let is_matrix = t.contains('x');
    let mut v = vec![""];
    if is_matrix {
        v.extend(["row_major", "column_major"]);
    }
    if is_float {
        v.extend(["unorm", "snorm"]);
    }
    if is_matrix && is_float {
        v.extend(["row_major unorm", "snorm row_major", "unorm column_major", "column_major snorm"]);
    }
    // volatile is only accepted on locals, parameters and typedefs
    if site == 'l' || site == 'p' || site == 't' {
        v.push("volatile");
        if !quick && is_matrix {
            v.push("volatile row_major");
        }
    }
    v
}

/// (tag, family, helper declarations, statement) with `{X}` the target, `{R}` a writable value of the same type, `{PT}` its type
fn write_contexts(quick: bool) -> Vec<(&'static str, &'static str, &'static str, String)> {
    let mut v: Vec<(&'static str, &'static str, &'static str, String)> = vec![("assign", "write", "", "{X} = {R}".into()), ("assign-literal", "write", "", "{X} = 1".into())];
    let ops: &[&str] = if quick { &["+="] } else { &ASSIGN_OPS[1..] };
    for op in ops {
        v.push(("compound-assign", "write", "", format!("{{X}} {} {{R}}", op)));
    }
    v.push(("incdec-prefix", "write", "", "++{X}".into()));
    v.push(("incdec-postfix", "write", "", "{X}++".into()));
    v.push(("incdec-postfix", "write", "", "{X}--".into()));
    if !quick {
        v.push(("incdec-prefix", "write", "", "--{X}".into()));
        v.push(("compound-assign-literal", "write", "", "{X} += 1".into()));
    }
    v.push(("out-arg", "out-arg", "void fo(out {PT} p);", "fo({X})".into()));
    v.push(("out-arg", "out-arg", "void fio(inout {PT} p);", "fio({X})".into()));
    v.push(("out-arg", "out-arg", "template<typename Q> void to(out Q p) { }", "to({X})".into()));
    if !quick {
        v.push(("out-arg", "out-arg", "template<typename Q> void tio(inout Q p) { }", "tio<{PT}>({X})".into()));
        v.push(("out-arg", "out-arg", "void f2o(int a, out {PT} p);", "f2o(1, {X})".into()));
    }
    v
}

/// statement positions: (name, program with `{G}` globals, `{P}` parameters, `{D}` local declarations, `{W}` the statement, `{I}`)
const MOD_POSITIONS: [(&str, &str); 10] = [
    ("stmt", "{G}void m_{I}({P}) { {D}{W}; }"),
    ("if", "{G}void m_{I}({P}) { {D}if (lb) { {W}; } }"),
    ("else", "{G}void m_{I}({P}) { {D}if (lb) { } else { {W}; } }"),
    ("for-init", "{G}void m_{I}({P}) { {D}for ({W}; lb; ) { break; } }"),
    ("for-iter", "{G}void m_{I}({P}) { {D}for (; lb; {W}) { break; } }"),
    ("while", "{G}void m_{I}({P}) { {D}while (lb) { {W}; break; } }"),
    ("switch", "{G}void m_{I}({P}) { {D}switch (li) { case 1: {W}; break; default: break; } }"),
    ("sequence", "{G}void m_{I}({P}) { {D}(li, ({W})); }"),
    ("block", "{G}void m_{I}({P}) { {D}{ { {W}; } } }"),
    ("method", "{G}struct M_{I} { int fld; void meth_{I}({P}) { {D}{W}; } };"),
];

/// the cases of one statement position (the thorough tier runs position by position to bound the memory held)
fn modifier_cases(quick: bool, position: usize) -> Vec<NegCase> {
    let mut out: Vec<NegCase> = Vec::new();
    let mut base_index: BTreeMap<String, usize> = BTreeMap::new();
    let mut decl_cache: BTreeMap<String, std::sync::Arc<str>> = BTreeMap::new();
    let mut shared = |text: String| -> std::sync::Arc<str> { decl_cache.entry(text.clone()).or_insert_with(|| text.into()).clone() };
    let types = modified_types(quick);
    let ctxs = write_contexts(quick);
    let squeeze = |s: String| -> String { s.split_whitespace().collect::<Vec<_>>().join(" ") };
    for (pname, ptpl) in &MOD_POSITIONS[position..position + 1] {
        for mt in &types {
            let t = mt.name;
            for sk in STORAGE_KINDS.iter() {
                for m in modifier_sets(t, sk.site, quick) {
                    for (suffix, pt) in &mt.paths {
                        for (tag, family, helper, stmt) in &ctxs {
                            // (a whole const array on either side of `=` is refused as an operand type mismatch)
                            let expect: &'static [&'static str] = if *family != "write" { EXPECT_CALL } else if mt.tclass == "+array" { EXPECT_WRITE_ARRAY } else { EXPECT_WRITE };
                            // `neutral`: the statement is replaced by one that reads a local (the declarations alone)
                            let program = |d: &(&str, &str, &str, &str), neutral: bool| -> String {
                                let sub = |x: &str| x.replace("{M}", m).replace("{T}", t).replace("{PT}", pt);
                                let w = if neutral { "li".to_string() } else { stmt.replace("{X}", &format!("{}{}", d.3, suffix)).replace("{R}", &format!("l2{}", suffix)).replace("{PT}", pt) };
                                let g = format!("{} {} {} ", mt.prelude, sub(d.0), sub(helper));
                                let locals = format!("{} {} l2; bool lb = true; int li = 1; ", sub(d.2), t);
                                squeeze(ptpl.replace("{G}", &g).replace("{P}", &sub(d.1)).replace("{D}", &locals).replace("{W}", &w))
                            };
                            let tag_full = if m.is_empty() { tag.to_string() } else { format!("{}+modifier", tag) };
                            let btpl = program(&sk.rw, false);
                            let bi = match base_index.get(&btpl) {
                                Some(i) => *i,
                                None => {
                                    let i = out.len();
                                    base_index.insert(btpl.clone(), i);
                                    out.push(NegCase {
                                        family,
                                        class: "base".into(),
                                        what: format!("{} on a writable `{} {}` value, path `{}`", tag, m, t, suffix),
                                        base: usize::MAX,
                                        text: btpl.replace("{I}", &i.to_string()),
                                        expect,
                                        standalone: true,
                                        tag: tag_full.clone(),
                                        decl_only: shared(program(&sk.rw, true).replace("{I}", "0")),
                                    });
                                    i
                                }
                            };
                            let i = out.len();
                            let class = format!("{}{}{}", sk.class, if m.is_empty() { "" } else { "+modifier" }, mt.tclass);
                            out.push(NegCase {
                                family,
                                class,
                                what: format!("`{}` where the target is declared `{}` (modifiers `{}`, path `{}`), position {}", stmt.replace("{X}", &format!("{}{}", sk.ro.3, suffix)).replace("{R}", &format!("l2{}", suffix)).replace("{PT}", pt), squeeze(format!("{} {} {}", sk.ro.0, sk.ro.1, sk.ro.2).replace("{M}", m).replace("{T}", t)), m, suffix, pname),
                                base: bi,
                                text: program(&sk.ro, false).replace("{I}", &i.to_string()),
                                expect,
                                standalone: true,
                                tag: tag_full,
                                decl_only: shared(program(&sk.ro, true).replace("{I}", "0")),
                            });
                        }
                    }
                }
            }
        }
    }
    out
}

// ---------------------------------------------------------------------------------------------
// brace (aggregate) initialisers: {list shape} x {leaf kind at every leaf} x {target type} x {declaration form}

/// a brace initialiser: an operand (index into INIT_LEAVES) or a list
#[derive(Clone, Debug, PartialEq, Eq, PartialOrd, Ord)]
enum Bt {
    Leaf(u8),
    List(Vec<Bt>),
}

impl Bt {
    fn leaves(&self) -> u32 {
        match self {
            Bt::Leaf(_) => 1,
            Bt::List(c) => c.iter().map(|x| x.leaves()).sum(),
        }
    }
    fn nodes(&self) -> u32 {
        match self {
            Bt::Leaf(_) => 1,
            Bt::List(c) => 1 + c.iter().map(|x| x.nodes()).sum::<u32>(),
        }
    }
    fn depth(&self) -> u32 {
        match self {
            Bt::Leaf(_) => 0,
            Bt::List(c) => 1 + c.iter().map(|x| x.depth()).max().unwrap_or(0),
        }
    }
    fn has_empty(&self) -> bool {
        match self {
            Bt::Leaf(_) => false,
            Bt::List(c) => c.is_empty() || c.iter().any(|x| x.has_empty()),
        }
    }
    fn kinds(&self, out: &mut Vec<u8>) {
        match self {
            Bt::Leaf(k) => out.push(*k),
            Bt::List(c) => c.iter().for_each(|x| x.kinds(out)),
        }
    }
    fn text(&self) -> String {
        match self {
            Bt::Leaf(k) => INIT_LEAVES[*k as usize].0.to_string(),
            Bt::List(c) if c.is_empty() => "{ }".to_string(),
            Bt::List(c) => format!("{{ {} }}", c.iter().map(|x| x.text()).collect::<Vec<_>>().join(", ")),
        }
    }
    /// the same shape with the leaves relabelled in order
    fn relabel(&self, kinds: &[u8], pos: &mut usize) -> Bt {
        match self {
            Bt::Leaf(_) => {
                *pos += 1;
                Bt::Leaf(kinds[*pos - 1])
            }
            Bt::List(c) => Bt::List(c.iter().map(|x| x.relabel(kinds, pos)).collect()),
        }
    }
}

/// operand kinds: (expression, prelude item, components it contributes when an initialiser list is flattened
/// (0 = can never be an operand of a numeric aggregate), width as a numeric value (0 = not numeric))
const INIT_LEAVES: [(&str, &str, u32, u32); 5] = [("1", "", 1, 1), ("i_gf", "i_gf", 1, 1), ("i_gf2", "i_gf2", 2, 2), ("i_gt", "i_gt", 1, 0), ("i_gss", "i_gss", 0, 0)];

/// all lists of depth <= `depth`, at most `width` elements per list, at most `max_leaves` operands and `max_nodes`
/// nodes in total; shapes that contain a list without elements only up to 4 nodes (no oracle applies to them);
/// every leaf is kind 0; simplest (fewest nodes) first
fn brace_shapes(depth: u32, width: usize, max_leaves: u32, max_nodes: u32) -> Vec<Bt> {
    fn lists(depth: u32, width: usize, max_leaves: u32, max_nodes: u32) -> Vec<Bt> {
        // children of a list of this depth: a leaf or a list one level shallower
        let mut subs: Vec<Bt> = vec![Bt::Leaf(0)];
        if depth > 1 {
            subs.extend(lists(depth - 1, width, max_leaves, max_nodes));
        }
        let mut out: Vec<Bt> = Vec::new();
        fn ext(cur: &mut Vec<Bt>, leaves: u32, nodes: u32, subs: &[Bt], width: usize, max_leaves: u32, max_nodes: u32, out: &mut Vec<Bt>) {
            out.push(Bt::List(cur.clone()));
            if cur.len() == width {
                return;
            }
            for s in subs {
                let (l, n) = (leaves + s.leaves(), nodes + s.nodes());
                if l <= max_leaves && n <= max_nodes {
                    cur.push(s.clone());
                    ext(cur, l, n, subs, width, max_leaves, max_nodes, out);
                    cur.pop();
                }
            }
        }
        ext(&mut Vec::new(), 0, 1, &subs, width, max_leaves, max_nodes, &mut out);
        out
    }
    let mut v = lists(depth, width, max_leaves, max_nodes);
    v.retain(|t| !t.has_empty() || t.nodes() <= 4);
    v.sort_by_key(|t| (t.nodes(), t.leaves(), t.depth(), t.text()));
    v.dedup();
    v
}

/// model of a declared type
#[derive(Clone, Debug)]
enum Ity {
    Sc,
    Vec(u32),
    Arr(Box<Ity>, u32),
    St(Vec<Ity>),
}

impl Ity {
    fn flat(&self) -> u32 {
        match self {
            Ity::Sc => 1,
            Ity::Vec(n) => *n,
            Ity::Arr(e, n) => e.flat() * n,
            Ity::St(ms) => ms.iter().map(|m| m.flat()).sum(),
        }
    }
}

/// Element-wise reading (the one rssl implements): a list initialises a scalar only when it has exactly one element,
/// a vector / array / struct takes exactly one element per component / element / member. Err = class of the first
/// position (pre-order) where the initialiser does not fit.
fn structured_fit(t: &Bt, ty: &Ity) -> Result<(), &'static str> {
    match (ty, t) {
        (Ity::Sc, Bt::Leaf(k)) => {
            if INIT_LEAVES[*k as usize].3 >= 1 {
                Ok(())
            } else {
                Err("unconvertible-operand")
            }
        }
        (Ity::Sc, Bt::List(c)) => match c.len() {
            0 => Err("no-operand-for-scalar"),
            1 => structured_fit(&c[0], ty),
            _ => Err("excess-operands-for-scalar"),
        },
        (Ity::Vec(n), Bt::Leaf(k)) => {
            let w = INIT_LEAVES[*k as usize].3;
            if w == 1 || w >= *n { Ok(()) } else { Err("unconvertible-operand") }
        }
        (Ity::Vec(n), Bt::List(c)) => {
            if c.len() as u32 != *n {
                return Err("vector-operand-count");
            }
            c.iter().try_for_each(|x| structured_fit(x, &Ity::Sc))
        }
        (Ity::Arr(..), Bt::Leaf(_)) | (Ity::St(_), Bt::Leaf(_)) => Err("unconvertible-operand"),
        (Ity::Arr(e, n), Bt::List(c)) => {
            if c.len() as u32 != *n {
                return Err("array-operand-count");
            }
            c.iter().try_for_each(|x| structured_fit(x, e))
        }
        (Ity::St(ms), Bt::List(c)) => {
            if c.len() != ms.len() {
                return Err("struct-operand-count");
            }
            c.iter().zip(ms.iter()).try_for_each(|(x, m)| structured_fit(x, m))
        }
    }
}

/// Flattening reading (HLSL): the operands of all nested lists are concatenated and must supply exactly as many scalar
/// components as the target has.
fn flattened_fit(t: &Bt, ty: &Ity) -> bool {
    let mut ks = Vec::new();
    t.kinds(&mut ks);
    !t.has_empty() && ks.iter().all(|k| INIT_LEAVES[*k as usize].2 > 0) && ks.iter().map(|k| INIT_LEAVES[*k as usize].2).sum::<u32>() == ty.flat()
}

/// (name, type before the declarator, declarator suffix, prelude items, model)
fn init_targets() -> Vec<(&'static str, &'static str, &'static str, Vec<&'static str>, Ity)> {
    let s2 = Ity::St(vec![Ity::Sc, Ity::Sc]);
    vec![
        ("int", "int", "", vec![], Ity::Sc),
        ("float2", "float2", "", vec![], Ity::Vec(2)),
        ("float[2]", "float", "[2]", vec![], Ity::Arr(Box::new(Ity::Sc), 2)),
        ("S2", "IS2", "", vec!["IS2"], s2.clone()),
        ("float2[2]", "float2", "[2]", vec![], Ity::Arr(Box::new(Ity::Vec(2)), 2)),
        ("S3", "IS3", "", vec!["IS3"], Ity::St(vec![s2.clone(), Ity::Arr(Box::new(Ity::Sc), 2)])),
        ("int3", "int3", "", vec![], Ity::Vec(3)),
        ("S2[2]", "IS2", "[2]", vec!["IS2"], Ity::Arr(Box::new(s2), 2)),
    ]
}

/// declaration forms: `{P}` type, `{S}` declarator suffix, `{V}` the initialiser, `{I}` case index
const INIT_FORMS: [&str; 7] = [
    "void c_{I}() { {P} v{S} = {V}; }",
    "static {P} v_{I}{S} = {V};",
    "static const {P} v_{I}{S} = {V};",
    "void c_{I}() { const {P} v{S} = {V}; }",
    "void c_{I}() { static {P} v{S} = {V}; }",
    "void c_{I}() { for ({P} v{S} = {V}; ; ) { break; } }",
    "void c_{I}() { {P} u{S}, v{S} = {V}; }",
];

const EXPECT_INIT: &[&str] = &["InitializerAggregateWrongDimension", "InitializerExpressionWrongType", "InitializerAggregateDoesNotMatchType"];

struct InitSpace {
    /// (shape with all leaves of kind 0, number of leaf labellings enumerated for it)
    shapes: Vec<Bt>,
    /// first tree index of every shape
    offsets: Vec<u64>,
    trees: u64,
    nkinds: u64,
    targets: Vec<(&'static str, &'static str, &'static str, Vec<&'static str>, Ity)>,
    nforms: u64,
}

struct InitCase {
    case: Case,
    tree: Bt,
    target: &'static str,
    /// class of the violation when neither reading accepts the initialiser
    must_reject: Option<&'static str>,
    structured_ok: bool,
}

impl InitSpace {
    /// `nkinds` leaf kinds at every leaf (1 = only the literal)
    fn new(shapes: Vec<Bt>, nkinds: u64, ntargets: usize, nforms: u64) -> InitSpace {
        let mut offsets = Vec::new();
        let mut trees = 0u64;
        for s in &shapes {
            offsets.push(trees);
            trees += nkinds.pow(s.leaves());
        }
        let mut targets = init_targets();
        targets.truncate(ntargets);
        InitSpace { shapes, offsets, trees, nkinds, targets, nforms }
    }
    fn len(&self) -> u64 {
        self.trees * self.targets.len() as u64 * self.nforms
    }
    /// simplest first: trees in order of size (slowest), then target, then declaration form
    fn get(&self, idx: u64) -> InitCase {
        let form = INIT_FORMS[(idx % self.nforms) as usize];
        let (tname, tprefix, tsuffix, tneeds, model) = &self.targets[((idx / self.nforms) % self.targets.len() as u64) as usize];
        let ti = idx / self.nforms / self.targets.len() as u64;
        let k = match self.offsets.binary_search(&ti) {
            Ok(k) => k,
            Err(k) => k - 1,
        };
        let shape = &self.shapes[k];
        let mut d = ti - self.offsets[k];
        let mut kinds = Vec::new();
        for _ in 0..shape.leaves() {
            kinds.push((d % self.nkinds) as u8);
            d /= self.nkinds;
        }
        let tree = shape.relabel(&kinds, &mut 0);
        let mut needs: Vec<String> = tneeds.iter().map(|s| s.to_string()).collect();
        for k in &kinds {
            let n = INIT_LEAVES[*k as usize].1;
            if !n.is_empty() && !needs.iter().any(|x| x == n) {
                needs.push(n.to_string());
            }
        }
        let text = form.replace("{P}", tprefix).replace("{S}", tsuffix).replace("{V}", &tree.text()).replace("{I}", &idx.to_string());
        let st = structured_fit(&tree, model);
        // Both readings must refuse the initialiser before the check demands a rejection; lists without any operand
        // are left to the type checker (other C-like languages read `{ }` as a zero value).
        let must_reject = match st {
            Err(class) if !flattened_fit(&tree, model) && !tree.has_empty() => Some(class),
            _ => None,
        };
        InitCase { case: Case { text, needs }, tree, target: tname, must_reject, structured_ok: st.is_ok() }
    }
}

fn ir_init_leaves(i: &rssl::ir::Initializer) -> u64 {
    match i {
        rssl::ir::Initializer::Expression(_) => 1,
        rssl::ir::Initializer::Aggregate(l) => l.iter().map(ir_init_leaves).sum(),
    }
}

fn ir_block_init_leaves(b: &rssl::ir::ScopeBlock) -> u64 {
    use rssl::ir::{ForInit, StatementKind};
    let mut n = 0;
    for st in &b.0 {
        match &st.kind {
            StatementKind::Var(vd) => n += vd.init.as_ref().map(ir_init_leaves).unwrap_or(0),
            StatementKind::Block(b) | StatementKind::If(_, b) | StatementKind::While(_, b) | StatementKind::DoWhile(b, _) | StatementKind::Switch(_, b) => n += ir_block_init_leaves(b),
            StatementKind::IfElse(_, a, b) => n += ir_block_init_leaves(a) + ir_block_init_leaves(b),
            StatementKind::For(init, _, _, b) => {
                if let ForInit::Definitions(defs) = init {
                    for d in defs {
                        n += d.init.as_ref().map(ir_init_leaves).unwrap_or(0);
                    }
                }
                n += ir_block_init_leaves(b);
            }
            _ => {}
        }
    }
    n
}

/// number of operand expressions in all variable initialisers of the module
fn ir_module_init_leaves(m: &rssl::ir::Module) -> u64 {
    let mut n = 0;
    for g in m.global_registry.iter() {
        if !g.is_intrinsic {
            n += g.init.as_ref().map(ir_init_leaves).unwrap_or(0);
        }
    }
    for f in 0..m.function_registry.get_function_count() {
        let fid = rssl::ir::FunctionId(f);
        if m.function_registry.get_intrinsic_data(fid).is_some() {
            continue;
        }
        if let Some(imp) = m.function_registry.get_function_implementation(fid) {
            n += ir_block_init_leaves(&imp.scope_block);
        }
    }
    n
}

/// relational oracle on an accepted initialiser: no operand written in the source may be missing from the IR
fn check_init_operands(m: &rssl::ir::Module, source_leaves: u64, what: &str, src: &str, acc: &mut Acc) {
    let n = ir_module_init_leaves(m);
    if n < source_leaves {
        acc.violation(Violation {
            signature: "ir|init-operands-dropped".into(),
            detail: format!("{}: the source initialiser has {} operands, the elaborated initialiser {} (an operand disappeared without being type checked)", what, source_leaves, n),
            replay: format!("kind: init-operands\nleaves: {}\n{}", source_leaves, src),
        });
    }
}

fn init_eval(pre: &Prelude, space: &str, idx: u64, ic: &InitCase, acc: &mut Acc) {
    acc.evals += 1;
    let (src, _) = assemble(pre, &[&ic.case]);
    let what = format!("`{}` as the initialiser of a variable of type {}", ic.tree.text(), ic.target);
    if let Some(class) = ic.must_reject {
        acc.count("init|must be rejected in both readings");
        let replay = mutant_replay_of("initialiser", class, EXPECT_INIT, "", &src);
        check_mutant("initialiser", class, &what, EXPECT_INIT, &src, replay, "", "", acc);
        return;
    }
    acc.count("type_checks");
    match tc(&src) {
        TcOut::Ok(m) => {
            acc.count(if ic.structured_ok { "init|accepted|fits element-wise" } else { "init|accepted|does not fit element-wise" });
            check_accepted(pre, &m, &[(idx, ic.case.clone())], &src, space, acc);
            check_init_operands(&m, ic.tree.leaves() as u64, &what, &src, acc);
        }
        TcOut::Rej { class, .. } => {
            acc.count("rejected");
            acc.count(&format!("init|rejected|{}|{}", if ic.structured_ok { "fits element-wise" } else if ic.tree.has_empty() { "has an empty list" } else { "fits only flattened" }, class));
        }
        TcOut::ParseErr(msg) => acc.violation(Violation {
            signature: format!("machinery|generated-case-does-not-parse|{}", space),
            detail: format!("case {} of {}: {}", idx, space, one_line(&msg, 300)),
            replay: unit_replay(space, Some(idx), &src),
        }),
        TcOut::Panic(p) => {
            acc.count("panicked");
            acc.violation(Violation { signature: psig(&p), detail: format!("type_check panicked ({}) on {}", one_line(&p.message, 200), what), replay: unit_replay(space, Some(idx), &src) });
        }
    }
}

fn run_init_space(ctx: &Ctx, rep: &mut Report, pre: &Prelude, name: &str, sp: &InitSpace) {
    if !space_selected(name) {
        rep.exhaustive = false;
        rep.caps_hit.push(format!("{}: not selected by VERIF_C03_SPACES", name));
        return;
    }
    let total = sp.len();
    let r = run_par(ctx, total, 64, |idx, acc| {
        let ic = sp.get(idx);
        let t0 = thread_cpu_s();
        init_eval(pre, name, idx, &ic, acc);
        acc.add(&format!("cpu_us|{}", name), ((thread_cpu_s() - t0) * 1e6) as u64);
        if idx % 9973 == 0 {
            acc.sample(obj(vec![("space", name.into()), ("case", (idx as i64).into()), ("text", ic.case.text.as_str().into())]));
        }
    });
    rep.cov(&format!("cases_{}", name), Json::Int(total as i64));
    rep.cov(&format!("trees_{}", name), Json::Int(sp.trees as i64));
    rep.absorb(name, r);
}

/// Negative side driver: type check every base program (accepted ones also go through the IR checker), then every
/// mutant whose base was accepted.
fn run_neg(ctx: &Ctx, rep: &mut Report, pre: &Prelude, neg: &[NegCase], bases_space: &str, mutants_space: &str, sample_every: u64) {
    let accepted: Vec<AtomicBool> = neg.iter().map(|_| AtomicBool::new(false)).collect();
    let bases: Vec<usize> = neg.iter().enumerate().filter(|(_, c)| c.base == usize::MAX).map(|(i, _)| i).collect();
    let r = run_par(ctx, bases.len() as u64, 16, |k, acc| {
        let i = bases[k as usize];
        let c = &neg[i];
        let src = neg_source(c);
        let space_line = if c.tag.is_empty() { bases_space.to_string() } else { format!("{};{}", bases_space, c.tag) };
        acc.evals += 1;
        acc.count("type_checks");
        match tc(&src) {
            TcOut::Ok(m) => {
                accepted[i].store(true, Ordering::Relaxed);
                acc.count(&format!("bases_accepted|{}", c.family));
                let case = Case { text: c.text.clone(), needs: vec![] };
                check_accepted(pre, &m, &[(i as u64, case)], &src, bases_space, acc);
            }
            TcOut::Rej { class, .. } => {
                acc.count(&format!("bases_rejected|{}|{}", c.family, class));
            }
            TcOut::ParseErr(msg) => acc.violation(Violation {
                signature: format!("machinery|generated-base-does-not-parse|{}", c.family),
                detail: one_line(&msg, 300),
                replay: unit_replay(&space_line, Some(i as u64), &src),
            }),
            TcOut::Panic(p) => {
                acc.count("panicked");
                let sig = psig(&p);
                if declarations_panic_alike(&c.decl_only, &sig) {
                    acc.violation(Violation {
                        signature: tagged(sig, "declaration"),
                        detail: format!("type_check panicked ({}) on the declarations of a base program ({}): {}", one_line(&p.message, 200), c.what, one_line(&c.decl_only, 300)),
                        replay: unit_replay(&format!("{};declaration", bases_space), Some(i as u64), &format!("{}\n", c.decl_only)),
                    })
                } else {
                    acc.violation(Violation {
                        signature: tagged(sig, &c.tag),
                        detail: format!("type_check panicked ({}) on a base program ({}): {}", one_line(&p.message, 200), c.what, one_line(&c.text, 300)),
                        replay: unit_replay(&space_line, Some(i as u64), &src),
                    })
                }
            }
        }
    });
    rep.absorb(bases_space, r);
    let muts: Vec<usize> = neg.iter().enumerate().filter(|(_, c)| c.base != usize::MAX).map(|(i, _)| i).collect();
    let r = run_par(ctx, muts.len() as u64, 32, |k, acc| {
        let c = &neg[muts[k as usize]];
        if !accepted[c.base].load(Ordering::Relaxed) {
            acc.count(&format!("mutants_not_applicable_base_rejected|{}", c.family));
            return;
        }
        acc.evals += 1;
        acc.count(&format!("mutants|{}", c.family));
        let src = neg_source(c);
        let replay = mutant_replay(c, &src);
        check_mutant(c.family, &c.class, &c.what, c.expect, &src, replay, &c.tag, &c.decl_only, acc);
        if k % sample_every == 0 {
            acc.sample(obj(vec![("space", mutants_space.into()), ("family", c.family.into()), ("class", c.class.as_str().into()), ("text", c.text.as_str().into())]));
        }
    });
    rep.absorb(mutants_space, r);
}

// ---------------------------------------------------------------------------------------------

pub fn run(ctx: &Ctx) -> i32 {
    let quick = ctx.quick();
    let mut rep = Report::new("exploration");
    rep.rule = "every case is type checked by the real rssl::typer::type_check; positive side: non-trivial = accepted, distinct = different elaborated IR with the independently computed type of every node; negative side (mutants, and brace initialisers that fit no reading): non-trivial = rejected, distinct = (mutation family, class, error class)".into();
    let pre = build_prelude();
    let batch = 48u64;

    // ---- the two small spaces that were added after seeded changes were missed run first, so that a time budget
    // cut short by a loaded machine never removes them
    // writes through types with a modifier besides const (negative side)
    if space_selected("modifier_mutants") {
        let (mut nbases, mut nmutants) = (0i64, 0i64);
        for position in 0..if quick { 1 } else { MOD_POSITIONS.len() } {
            let mneg = modifier_cases(quick, position);
            nmutants += mneg.iter().filter(|c| c.base != usize::MAX).count() as i64;
            nbases += mneg.iter().filter(|c| c.base == usize::MAX).count() as i64;
            run_neg(ctx, &mut rep, &pre, &mneg, "modifier_bases", "modifier_mutants", 2003);
        }
        rep.cov("cases_modifier_mutants", Json::Int(nmutants));
        rep.cov("cases_modifier_bases", Json::Int(nbases));
        rep.cov("space_modifier_bases", Json::Int(nbases));
        rep.cov("space_modifier_mutants", Json::Int(nmutants));
    } else {
        rep.exhaustive = false;
        rep.caps_hit.push("modifier_mutants: not selected by VERIF_C03_SPACES".into());
    }
    // brace initialisers: every list shape with literal operands x target x declaration form, and every operand kind
    // at every leaf of the smaller shapes
    let init_shapes = if quick { InitSpace::new(brace_shapes(3, 4, 5, 9), 1, 8, 2) } else { InitSpace::new(brace_shapes(3, 4, 6, 10), 1, 8, INIT_FORMS.len() as u64) };
    run_init_space(ctx, &mut rep, &pre, "init_list_shapes", &init_shapes);
    let init_kinds = if quick { InitSpace::new(brace_shapes(2, 3, 3, 6), INIT_LEAVES.len() as u64, 8, 1) } else { InitSpace::new(brace_shapes(3, 3, 4, 7), INIT_LEAVES.len() as u64, 8, 2) };
    run_init_space(ctx, &mut rep, &pre, "init_list_operands", &init_kinds);

    // ---- positive side
    let ops = Operands::new(quick);
    let n = ops.len();
    let nb = bin_ops().len() as u64;
    run_space(ctx, &mut rep, &pre, "binary_depth1", n * n * nb, batch, &|i| gen_bin1(&ops, i));
    run_space(ctx, &mut rep, &pre, "unary_depth1", n * UNARY_FORMS.len() as u64, batch, &|i| gen_un1(&ops, i));
    let nconds = ctx.pick(3u64, TERN_CONDS.len() as u64);
    run_space(ctx, &mut rep, &pre, "ternary_depth1", n * n * nconds, batch, &|i| gen_tern1(&ops, nconds, i));
    let dsts = ops.types();
    run_space(ctx, &mut rep, &pre, "conversions", n * dsts.len() as u64 * CONV_FORMS.len() as u64, batch, &|i| gen_conv(&ops, &dsts, i));
    let nglobal = (dsts.len() * 4 + ops.lits.len()) as u64;
    run_space(ctx, &mut rep, &pre, "global_init_default_args", nglobal * dsts.len() as u64 * GLOBAL_FORMS.len() as u64, batch, &|i| gen_ginit(&ops, &dsts, i));
    let ctors = CtorSpace::new(quick);
    run_space(ctx, &mut rep, &pre, "constructors", ctors.len(), batch, &|i| ctors.get(i));
    let d2 = D2 { leaves: class_leaves(quick) };
    run_space(ctx, &mut rep, &pre, "depth2", d2.len(), batch, &|i| d2.get(i));
    let calls = Calls::new(quick);
    run_space(ctx, &mut rep, &pre, "calls", calls.total, batch, &|i| calls.get(i));
    run_space(ctx, &mut rep, &pre, "misc", MISC.len() as u64, 1, &gen_misc);
    rep.cov("operand_types_depth1", Json::Int(n as i64));
    rep.cov("class_alphabet_leaves", Json::Int(d2.leaves.len() as i64));
    rep.cov("call_shapes", Json::Int(calls.shapes.len() as i64));

    // ---- negative side
    if space_selected("mutants") {
        let neg = neg_cases();
        run_neg(ctx, &mut rep, &pre, &neg, "mutation_bases", "mutants", 4001);
    } else {
        rep.exhaustive = false;
        rep.caps_hit.push("mutants: not selected by VERIF_C03_SPACES".into());
    }

    rep.assumptions = vec![
        "depth: depth-1 operator spaces are exhaustive over the stated operand types; depth 2 is over a class alphabet of operators and leaves; deeper nesting is not explored".into(),
        "operands of the two literal kinds exist only as non-const r-values (a variable of a literal type cannot be written in source), and no one-component vector of a literal kind can be written; those 32 of the 160 operand types are outside the space".into(),
        "two types are 'the same' when their unqualified shapes agree (qualifiers and value category of an operand are ignored); identity of qualified type ids is only checked through Expression::get_type not panicking".into(),
        "statement conditions are only required to have a type (the property does not list them)".into(),
        "casts: only conversions that HLSL certainly does not define are flagged (object or void on either side, widening of a value with more than one component); struct/array flat conversions and same-type casts are left alone".into(),
        "enum operands of arithmetic/bitwise/++ operators count as numeric (the type checker keeps enum-typed operands for unscoped enums)".into(),
        "negative side: a cast to the operand's own type, ?: results, assignment results and pre-increment results are not used as r-value forms (their value category differs between C-like languages)".into(),
        "negative side: writes to cbuffer members and to extern globals are counted as writes to const (HLSL: uniform inputs are read-only; the type checker itself makes extern globals const)".into(),
        "modified types: the modifiers are row_major / column_major (matrices), unorm / snorm (float types), volatile (locals and parameters only, the type checker refuses it elsewhere) and the pairs order x norm; storage kinds: extern global (plain, `extern`, through a typedef), static const global, const local (both modifier orders, through a typedef), const parameter, element of Buffer / StructuredBuffer / Texture2D / Texture2DArray / Texture3D and of their mips slices; the base of a mutant is the same program with the writable counterpart (static global, plain local / parameter, RW resource) and must be accepted; the quick tier uses the plain statement position only; precise and interpolation modifiers are outside the space".into(),
        "modified types, origin of const: besides `const` written on the declaration, `const` may come with a typedef name (plain, through a second typedef, together with volatile) while the other modifiers are written where the name is used: local, static local, parameter (only / middle / inout), a second typedef, static and groupshared global, element type of RWBuffer / RWStructuredBuffer / RWTexture2D, struct member (local and static global object); the writable counterpart is the same program with a typedef without const. A mutant whose declarations alone (the statement replaced by a read of a local) are rejected with the same error is counted as not applicable (the type checker refuses row_major / column_major on a typedef name that carries a modifier); a panic that the declarations alone reproduce is reported once, with the context class `declaration`. `const` in an explicit template type argument is outside the space: the type checker instantiates t<const float> as t<float> by design".into(),
        "modified types, type classes: numeric types (quick: float2x2, float4, float, int; thorough also float4x4, float3x2, float2, uint3, uint, bool, half, double) and the types without a scalar kind: enum, struct (whole value only; a member of a const struct is a recorded finding), array of float through a typedef (whole value and element; a whole const array on either side of `=` may be refused as BinaryOperationWrongTypes), thorough also element of an array of enum; their mutant classes carry the suffix +enum / +struct / +array".into(),
        "negative side, operand types of the write / out-argument families: int, float, int2, float3, bool, uint and the enum E (no constructor, vector, matrix or arithmetic forms for the enum); non-writable forms include a local whose const comes with a typedef name, alone and with volatile at the use site".into(),
        "brace initialisers: a rejection is demanded only when the initialiser fits neither the element-wise reading rssl implements (one element per component / element / member, a list for a scalar has exactly one element) nor HLSL's flattening reading (the scalar components of all operands add up to those of the target), and no list is empty; in every other case only the IR of an accepted program is checked, including that no source operand is missing from the elaborated initialiser; operands: int literal, float, float2, one-member struct and SamplerState globals; targets: int, float2, int3, float[2], float2[2], struct {int; float}, struct {that struct; int[2]}, array of 2 structs; matrices and unsized arrays are outside the space".into(),
        "struct templates, geometry/mesh shader objects and pipelines are outside the space".into(),
        "the typer's debug assertions are enabled in this build; a panic inside type_check is reported with its own signature".into(),
    ];
    // minimise the recorded case of every violation class (the verdict is not affected)
    for (sig, (_, _, v)) in rep.acc.viol.iter_mut() {
        v.replay = minimise(sig, &v.replay);
    }
    finish(ctx, rep)
}

/// re-run one recorded case through the same oracles
fn replay_into(body: &str, acc: &mut Acc, verbose: bool) -> bool {
    let (kind, rest) = body.split_once('\n').unwrap_or((body, ""));
    match kind.trim() {
        "kind: unit" => {
            let mut lines = rest.splitn(3, '\n');
            let space_line = lines.next().unwrap_or("").strip_prefix("space: ").unwrap_or("?").to_string();
            let (space, tag) = match space_line.split_once(';') {
                Some((a, b)) => (a.to_string(), b.to_string()),
                None => (space_line.clone(), String::new()),
            };
            let _case = lines.next();
            let src = lines.next().unwrap_or("");
            let pre = build_prelude();
            match tc(src) {
                TcOut::Ok(m) => check_accepted(&pre, &m, &[], src, &space, acc),
                TcOut::Rej { msg, .. } => {
                    if verbose {
                        println!("replay: rejected by the type checker: {}", one_line(&msg, 300))
                    }
                }
                TcOut::ParseErr(msg) => {
                    if verbose {
                        println!("replay: does not parse: {}", one_line(&msg, 300))
                    }
                }
                TcOut::Panic(p) => acc.violation(Violation { signature: tagged(psig(&p), &tag), detail: format!("type_check panicked: {}", p.message), replay: String::new() }),
            }
            true
        }
        "kind: init-operands" => {
            let (l, src) = rest.split_once('\n').unwrap_or((rest, ""));
            let leaves: u64 = l.strip_prefix("leaves: ").and_then(|x| x.trim().parse().ok()).unwrap_or(0);
            match tc(src) {
                TcOut::Ok(m) => check_init_operands(&m, leaves, "replayed initialiser", src, acc),
                TcOut::Rej { msg, .. } => {
                    if verbose {
                        println!("replay: rejected by the type checker: {}", one_line(&msg, 300))
                    }
                }
                TcOut::ParseErr(msg) => {
                    if verbose {
                        println!("replay: does not parse: {}", one_line(&msg, 300))
                    }
                }
                TcOut::Panic(p) => acc.violation(Violation { signature: psig(&p), detail: format!("type_check panicked: {}", p.message), replay: String::new() }),
            }
            true
        }
        "kind: mutant" => {
            let mut lines = rest.splitn(4, '\n');
            let family = lines.next().unwrap_or("").strip_prefix("family: ").unwrap_or("?").to_string();
            let class = lines.next().unwrap_or("").strip_prefix("class: ").unwrap_or("?").to_string();
            let eline = lines.next().unwrap_or("").strip_prefix("expect: ").unwrap_or("").to_string();
            let (elist, tag) = eline.split_once(';').unwrap_or((eline.as_str(), ""));
            let expect: Vec<String> = elist.split(',').map(|s| s.to_string()).collect();
            let src = lines.next().unwrap_or("");
            let ex: Vec<&str> = expect.iter().map(|s| s.as_str()).collect();
            check_mutant(&family, &class, "replayed mutant", &ex, src, String::new(), tag, "", acc);
            true
        }
        _ => false,
    }
}

/// Greedy minimisation of a replay: drop source lines (declarations of the prelude) and then single statements of the
/// last line while the same signature still reproduces.
fn minimise(signature: &str, body: &str) -> String {
    let reproduces = |b: &str| {
        let mut acc = Acc::default();
        replay_into(b, &mut acc, false) && acc.viol.contains_key(signature)
    };
    let header_lines = if body.starts_with("kind: unit") { 3 } else if body.starts_with("kind: mutant") { 4 } else { return body.to_string() };
    if !reproduces(body) {
        return body.to_string();
    }
    let all: Vec<&str> = body.lines().collect();
    if all.len() <= header_lines {
        return body.to_string();
    }
    let header: Vec<String> = all[..header_lines].iter().map(|s| s.to_string()).collect();
    // split prelude lines that hold several declarations
    let mut src: Vec<String> = Vec::new();
    for l in &all[header_lines..all.len() - 1] {
        if l.starts_with("struct ") || l.starts_with("cbuffer ") || l.starts_with("namespace ") || l.starts_with("enum ") {
            src.push(l.to_string());
        } else {
            for part in l.split_inclusive("; ") {
                src.push(part.trim_end().to_string());
            }
        }
    }
    let mut last = all[all.len() - 1].to_string();
    let join = |src: &Vec<String>, last: &str| format!("{}\n{}\n{}\n", header.join("\n"), src.join("\n"), last);
    let is_mutant = header_lines == 4;
    const DECL_STARTS: [&str; 15] = ["int", "float", "bool ", "bool3 ", "uint", "const ", "S ", "T2 ", "MO ", "half ", "double ", "E ", "static ", "CT_", "volatile "];
    for _round in 0..2 {
        let mut i = src.len();
        while i > 0 {
            i -= 1;
            let mut cand = src.clone();
            cand.remove(i);
            if reproduces(&join(&cand, &last)) {
                src = cand;
            }
        }
        // statements inside the last line: try to delete every `...; ` segment. For a mutant only local declarations
        // may go (deleting the mutated statement would leave an accepted, no longer ill-typed program).
        let mut k = 0;
        loop {
            let parts: Vec<&str> = last.split_inclusive("; ").collect();
            if k >= parts.len() {
                break;
            }
            let seg = parts[k];
            let deletable = !is_mutant || (k > 0 && DECL_STARTS.iter().any(|d| seg.starts_with(d)) && !seg.contains(" q = ("));
            let cand: String = parts.iter().enumerate().filter(|(j, _)| *j != k).map(|(_, p)| *p).collect();
            if deletable && reproduces(&join(&src, &cand)) {
                last = cand;
            } else {
                k += 1;
            }
        }
    }
    join(&src, &last)
}

pub fn replay(ctx: &Ctx, body: &str) -> i32 {
    let mut acc = Acc::default();
    if !replay_into(body, &mut acc, true) {
        eprintln!("machinery error: unknown replay kind {:?}", body.lines().next().unwrap_or(""));
        return 2;
    }
    finish_replay(ctx, &acc)
}

HOOK_COMMITS = []
ENGINES = [
    {"name": "e1-enumerate", "path": "harness/src/engine.rs", "serves_properties": [], "kind_free_text": "stateless bounded-exhaustive enumeration of inputs over the real code against a reference model / relational oracle"},
    {"name": "e2-bfs", "path": "harness/src/engine.rs", "serves_properties": [], "kind_free_text": "explicit-state breadth-first search over the real transition function with canonical state deduplication"},
    {"name": "e3-choice", "path": "harness/src/engine.rs", "serves_properties": [], "kind_free_text": "choice-point depth-first search with a deviation bound (controlled scheduler for hash-iteration order / trivia insertion)"},
]
NOTES = "All checks run the real rssl crates (path dependencies on /repo) inside /verif/harness; see DESIGN.md."
NOT_YET = {}
CLAIMED = []

HOOK_COMMITS = [
  "78b77a3 verif hook H3: record the conditional-inclusion state before every directive",
  "95305c4 verif hook H1: keep the syntax tree handed to the formatter by export_to_hlsl / export_to_msl",
  "4613e7a verif hook H4: record the slot allocator state after every root definition in assign_api_bindings",
  "824d458 verif hook H2: schedulable hash containers",
]
ENGINES = [
    {"name": "e1-enumerate", "path": "harness/src/engine.rs", "serves_properties": [], "kind_free_text": "stateless bounded-exhaustive enumeration of inputs over the real code against a reference model / relational oracle"},
    {"name": "e2-bfs", "path": "harness/src/engine.rs", "serves_properties": [], "kind_free_text": "explicit-state breadth-first search over the real transition function with canonical state deduplication"},
    {"name": "e3-choice", "path": "harness/src/engine.rs", "serves_properties": [], "kind_free_text": "choice-point depth-first search with a deviation bound (controlled scheduler for hash-iteration order / trivia insertion)"},
]
NOTES = "All checks run the real rssl crates (path dependencies on /repo) inside /verif/harness; see DESIGN.md."
NOT_YET = {}
CLAIMED = []
CLAIMED.append(check("C10", "exploration",
  "Bounded-exhaustive enumeration through the real lexer: every text t1 s1 t2 s2 (full token alphabet, 9 trivia kinds) and t1 s1 t2 s2 t3 (class alphabet) must have spans that tile the file and unlex back to the source; every digit string of <=4 digits per radix x 13 suffixes plus 2^k+-1/10^k families must lex to its exact value or be rejected when >= 2^64; every float spelling I.FeX S with <=4 significant digits, every exponent -330..310 and every suffix (thorough: 3.9e8 spellings) plus a 17/20-digit binade-boundary family must lex to the nearest double (narrowed once for f/h); thinned spellings are followed through compile() to the emitted HLSL. All cases within the bound are enumerated, none sampled.",
  "Trusts Rust's str::parse::<f64> as the correctly rounded reference and u128::from_str_radix for integers. Spellings with >4 significant digits only via the hard family; '.5'-style and strings with more than 3 tokens are outside the bound.",
  "bounded exhaustive input enumeration against reference lexing/number models (stateless model checking of the lexer)", "DESIGN.md section 5 C10", "e1-enumerate"))

CLAIMED.append(check("C11", "model_checking",
  "Explicit-state BFS over directive histories: each transition appends one of 13 directive letters and re-runs the real preprocessor; the state is the real ConditionChain + macro table (hook H3) paired with a C conditional-inclusion model, deduplicated on the pair; on every transition the active flag, chain depth, defined set, surviving text (end-to-end through preprocess+unlex with a closing suffix) and the unmatched/unterminated errors must agree with the model. Depth 9 quick / 12 thorough, plus every directive sequence of length <= 5/6 end to end, plus every condition string operand (op operand){0..3} with !/!! prefixes and every parenthesised group against a u64 precedence evaluator.",
  "The reference model and evaluator are ours (C11 6.10.1 restricted to the operators rssl supports). Histories that C makes ill-formed without the property listing them (second #else, #elif after #else) are only required not to panic.",
  "explicit-state BFS over the real transition function with reference-model conformance on every transition", "DESIGN.md section 5 C11", "e2-bfs"))

CLAIMED.append(check("C09", "exploration",
  "Bounded-exhaustive enumeration of syntax trees through the real formatter and the real preprocessor+parser: every expression tree of depth <= 2 over the full constructor alphabet (10 unary, 30 binary, ternary, subscript, member, calls with 0-2 arguments and a template argument, casts, sizeof) with ordered leaves, the same trees with each leaf kind (qualified names, int/uint/float/bool literals) substituted uniformly and at the first/last position, every spine tree of depth 3 over the full alphabet (thorough: depth 4 and 5 over class alphabets), every literal kind over boundary values incl. negative zero/negative/NaN nodes, double round trip (parse, print, parse) of the repository's .rssl inputs and of 280 statement/declarator/declaration forms, and the trees the HLSL exporter really builds (hook H1) for those inputs. Each failing tree is shrunk to the smallest failing sub-shape, which is the violation class.",
  "Parser ambiguity nodes are resolved in both trees with the type checker's own rule against a fixed type environment. MSL printing is not re-read (no Metal parser); the Metal-only BracedInit node is outside. Depth 6 of the property is not reached.",
  "bounded exhaustive enumeration of syntax trees with a print/parse round-trip oracle (small-scope model checking of formatter+parser)", "DESIGN.md section 5 C09", "e1-enumerate"))

CLAIMED.append(check("C07", "model_checking",
  "Controlled-scheduler exploration of the only nondeterminism in rssl, hash-container iteration order: hook H2 routes every iterating operation of every HashMap/HashSet in the compiler through a chooser; for each of 29 inputs (chosen so each container holds >= 2 elements: same-named symbols in several scopes, statics threaded through call chains on Metal, buffer addresses in several groups, helper intrinsics of many object kinds, interpolators, two pipelines, rejected programs, plus the 16 tests/basic inputs) x 4 target configurations, every execution with <= 1 (quick) / <= 2 (thorough) deviating choice points is run to completion, each deviation ranging over all alternative orders (all n!-1 for n <= 4; transpositions, reversal, rotation above), and the complete result (sources, stages, metadata, pipeline state or diagnostic) must equal the default-order run. Prefix replays are checked for divergence, the reference run is repeated, and a failing schedule is replayed twice.",
  "Assumes hash iteration is the only nondeterminism source (no clock/env/address/thread use in rssl) and that lookups are order-free. Orders for containers with > 4 elements are a restricted family. Cross-process repetition is implied by the in-process result only under that assumption.",
  "stateless model checking: choice-point DFS with a deviation bound over hash-iteration orders of the real compiler", "DESIGN.md section 5 C07", "e3-choice"))
